package mvs

// Seam for the one place dawn reaches the network. This file exists only under the
// simulator's overlay (as internal/mvs/zz_verif_hook.go); simgen re-points the default
// dialer's call of vcs.DialGitRepository at verifDialGit. With no harness repository
// installed the real dialer is used.

import (
	"context"

	"github.com/pgavlin/dawn/internal/vcs"
)

// VerifDial, when set, stands for the network: it returns the repository at address.
var VerifDial func(ctx context.Context, address string) (vcs.Repository, error)

func verifDialGit(ctx context.Context, address string, options *vcs.DialGitOptions) (vcs.Repository, error) {
	if VerifDial != nil {
		return VerifDial(ctx, address)
	}
	return vcs.DialGitRepository(ctx, address, options)
}
