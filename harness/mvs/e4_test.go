package mvs

// E4 — resolver engine: the real BuildList / Get / UpgradeAll / Tidy and the real
// pgavlin/mvs graph walk (10 par.Work workers as simulated goroutines) over simulated
// repositories reached through dawn's own Dialer. Decides C10 and C11.

import (
	"context"
	"errors"
	"fmt"
	"iter"
	"math/rand/v2"
	"os"
	"path"
	"path/filepath"
	"sort"
	"strings"
	"testing"
	"time"

	"github.com/pgavlin/dawn/internal/project"
	"github.com/pgavlin/dawn/internal/vcs"
	"golang.org/x/mod/module"
	"golang.org/x/mod/semver"
	"verif.local/sim/simcheck"
	"verif.local/sim/simrt"
	"verif.local/sim/simsync"
)

// ---------------------------------------------------------------- universe

type e4Dep struct {
	Path    string `json:"path"`
	Version string `json:"version"`
}

type e4Version struct {
	Version string  `json:"version"`
	Name    string  `json:"name,omitempty"` // project name in its dawn.toml
	Reqs    []e4Dep `json:"reqs,omitempty"`
	Legacy  bool    `json:"legacy_config_too,omitempty"` // the checkout also holds a .dawnconfig (without requirements)
}

type e4Project struct {
	Repo     int         `json:"repo"`
	Sub      string      `json:"sub,omitempty"`
	Major    string      `json:"major,omitempty"` // "", "v2", "v3"
	Versions []e4Version `json:"versions"`
}

type e4Repo struct {
	Addr string `json:"addr"`
}

type e4Req struct {
	Name    string `json:"name"`
	Path    string `json:"path"`
	Version string `json:"version"`
}

type e4Op struct {
	Op    string `json:"op"` // buildlist | tidy | upgrade-all | get
	Query string `json:"query,omitempty"`
	Canon string `json:"canonical_spelling,omitempty"` // the same request in its canonical spelling
}

type e4Scenario struct {
	Repos    []e4Repo    `json:"repos"`
	Projects []e4Project `json:"projects"`
	Root     []e4Req     `json:"root"`
	Ops      []e4Op      `json:"ops,omitempty"`
	Faults   bool        `json:"faults,omitempty"`
	Procs    int         `json:"concurrent_processes,omitempty"` // C10: this many resolvers share one cold cache at the same time
	// OneResolver (C11): after the history has been checked operation by operation with a fresh
	// resolver each, one long-lived resolver performs the same operations on the same
	// requirement sets; it must arrive where the fresh ones did.
	OneResolver bool `json:"one_long_lived_resolver,omitempty"`
	Reuse    bool        `json:"resolver_reused,omitempty"`      // C10: the resolver first serves another root
	Strategy int         `json:"strategy"`
	Sticky   int         `json:"sticky"`
	PCTDepth int         `json:"pct_depth"`
}

func (p *e4Project) path(sc *e4Scenario) string {
	return project.JoinPathVersion(path.Join(sc.Repos[p.Repo].Addr, p.Sub), p.Major)
}

// ---------------------------------------------------------------- simulated repositories

type e4Revision struct {
	id     string
	when   time.Time
	parent *e4Revision
	// projects is the repository's content at this revision: for every sub-path, the
	// project file of the latest version committed so far
	projects map[string]*e4Version
}

func (r *e4Revision) ID() string       { return r.id }
func (r *e4Revision) PseudoID() string { return r.id }
func (r *e4Revision) When() time.Time  { return r.when }
func (r *e4Revision) History() iter.Seq[vcs.Revision] {
	return func(yield func(vcs.Revision) bool) {
		for x := r; x != nil; x = x.parent {
			if !yield(x) {
				return
			}
		}
	}
}

type e4World struct {
	sc     *e4Scenario
	sim    *simrt.Sim
	faults bool
	hit    map[string]int
	dials  int
}

type e4Repository struct {
	w        *e4World
	addr     string
	head     *e4Revision
	revs     map[string]*e4Revision
	versions []*vcs.Version
	refs     map[string]string
}

func (w *e4World) fault(kind string) error {
	if w.sim != nil {
		w.sim.Yield("vcs."+kind, "")
	}
	if w.faults && w.sim != nil && w.sim.Cfg.Fault.Chance(8, 100) {
		w.hit[kind]++
		w.sim.FaultsHit["vcs_"+kind+"_error"]++
		return fmt.Errorf("injected %s failure", kind)
	}
	return nil
}

func (r *e4Repository) Path() string { return r.addr }
func (r *e4Repository) DefaultRef(ctx context.Context) (string, error) {
	if err := r.w.fault("defaultref"); err != nil {
		return "", err
	}
	return "main", nil
}
func (r *e4Repository) Versions(ctx context.Context) ([]*vcs.Version, error) {
	if err := r.w.fault("versions"); err != nil {
		return nil, err
	}
	return r.versions, nil
}
func (r *e4Repository) ResolveRef(ctx context.Context, ref string) (string, error) {
	if err := r.w.fault("resolveref"); err != nil {
		return "", err
	}
	id, ok := r.refs[ref]
	if !ok {
		return "", errors.New("no such reference")
	}
	return id, nil
}
func (r *e4Repository) GetRevision(ctx context.Context, id string) (vcs.Revision, error) {
	if err := r.w.fault("getrevision"); err != nil {
		return nil, err
	}
	rev, ok := r.revs[id]
	if !ok {
		return nil, errors.New("no such revision")
	}
	return rev, nil
}
func (r *e4Repository) FetchRevision(ctx context.Context, projectPath string, revision vcs.Revision, destDir string) error {
	if err := r.w.fault("fetch"); err != nil {
		return err
	}
	rev := revision.(*e4Revision)
	proj, ok := rev.projects[projectPath]
	if !ok {
		return errors.New("no such project")
	}
	// The checkout itself is the stub's business: it is written with the real os package
	// (no injected I/O faults, no torn files); a failing fetch is the injected error above.
	var sb strings.Builder
	if proj.Name != "" {
		fmt.Fprintf(&sb, "name = %q\n", proj.Name)
	}
	fmt.Fprintf(&sb, "version = %q\n", proj.Version)
	if len(proj.Reqs) > 0 {
		sb.WriteString("\n[requirements]\n")
		for i, d := range proj.Reqs {
			fmt.Fprintf(&sb, "r%d = {path = %q, version = %q}\n", i, d.Path, d.Version)
		}
	}
	dir := filepath.Join(destDir, filepath.FromSlash(projectPath))
	if err := os.MkdirAll(dir, 0700); err != nil {
		return err
	}
	// create/truncate, then (another process may run here) write
	f, err := os.Create(filepath.Join(dir, "dawn.toml"))
	if err != nil {
		return err
	}
	if r.w.sim != nil {
		r.w.sim.Yield("vcs.checkout", projectPath)
	}
	_, err = f.WriteString(sb.String())
	if cerr := f.Close(); err == nil {
		err = cerr
	}
	if err == nil && proj.Legacy {
		// a project that still ships the file of an earlier layout next to dawn.toml, with
		// other (older: no) requirements; dawn reads it only when there is no dawn.toml
		err = os.WriteFile(filepath.Join(dir, ".dawnconfig"), []byte(fmt.Sprintf("name = %q\n", "legacy")), 0644)
	}
	return err
}

type e4Dialer struct {
	w     *e4World
	repos map[string]*e4Repository
}

func (d *e4Dialer) dialRepository(ctx context.Context, kind, address string) (vcs.Repository, error) {
	d.w.dials++
	r, ok := d.repos[address]
	if !ok {
		if d.w.sim != nil {
			d.w.sim.Yield("vcs.dial", address)
		}
		return nil, errors.New("unreachable")
	}
	if err := d.w.fault("dial"); err != nil {
		for other := range d.repos {
			if strings.HasPrefix(address, other+"/") {
				d.w.hit["dial-nested"]++ // the caller will now try the enclosing repository
			}
		}
		return nil, err
	}
	return r, nil
}

func (w *e4World) dialer() *e4Dialer {
	sc := w.sc
	d := &e4Dialer{w: w, repos: map[string]*e4Repository{}}
	for ri, rs := range sc.Repos {
		repo := &e4Repository{w: w, addr: rs.Addr, revs: map[string]*e4Revision{}, refs: map[string]string{}}
		n := 0
		for pi := range sc.Projects {
			p := &sc.Projects[pi]
			if p.Repo != ri {
				continue
			}
			for vi := range p.Versions {
				n++
				v := &p.Versions[vi]
				rev := &e4Revision{id: fmt.Sprintf("%02dabcdef%04d", ri, n), when: time.Unix(int64(1000*n), 0).UTC(), parent: repo.head, projects: map[string]*e4Version{}}
				if repo.head != nil {
					for k, pv := range repo.head.projects {
						rev.projects[k] = pv
					}
				}
				rev.projects[p.Sub] = v
				repo.head = rev
				repo.revs[rev.id] = rev
				tag := v.Version
				if p.Sub != "" {
					tag = p.Sub + "/" + v.Version
				}
				repo.refs[tag] = rev.id
				repo.versions = append(repo.versions, &vcs.Version{
					Version:     module.Version{Path: p.path(sc), Version: v.Version},
					ProjectPath: p.Sub, RevisionID: rev.id,
				})
			}
		}
		if repo.head != nil {
			repo.refs["main"] = repo.head.id
		}
		sort.SliceStable(repo.versions, func(i, j int) bool {
			return semver.Compare(repo.versions[i].Version.Version, repo.versions[j].Version.Version) < 0
		})
		d.repos[rs.Addr] = repo
	}
	return d
}

// ---------------------------------------------------------------- the model

func (sc *e4Scenario) lookup(p, v string) *e4Version {
	if module.IsPseudoVersion(v) {
		// a pseudo-version names a revision: the project file is whatever the repository
		// holds for the project's sub-path at that revision
		rev, err := module.PseudoVersionRev(v)
		if err != nil {
			return nil
		}
		w := &e4World{sc: sc, hit: map[string]int{}}
		for pi := range sc.Projects {
			if sc.Projects[pi].path(sc) == p {
				repo := w.dialer().repos[sc.Repos[sc.Projects[pi].Repo].Addr]
				if r, ok := repo.revs[rev]; ok {
					return r.projects[sc.Projects[pi].Sub]
				}
			}
		}
		return nil
	}
	for pi := range sc.Projects {
		pr := &sc.Projects[pi]
		if pr.path(sc) != p {
			continue
		}
		for vi := range pr.Versions {
			if pr.Versions[vi].Version == v {
				return &pr.Versions[vi]
			}
		}
	}
	return nil
}

// modelBuildList: every project reachable through requirements, at the highest version any
// reachable requirement demands. ok=false if a reachable requirement names something that
// does not exist (the real resolver must then fail).
func (sc *e4Scenario) modelBuildList(root []e4Req) (map[string]string, bool) {
	out := map[string]string{"": ""}
	seen := map[string]bool{}
	var queue []e4Dep
	for _, r := range root {
		queue = append(queue, e4Dep{project.CleanPath(r.Path), r.Version})
	}
	ok := true
	for len(queue) > 0 {
		d := queue[0]
		queue = queue[1:]
		k := d.Path + "@@" + d.Version
		if seen[k] {
			continue
		}
		seen[k] = true
		if cur, has := out[d.Path]; !has || semver.Compare(cur, d.Version) < 0 {
			out[d.Path] = d.Version
		}
		v := sc.lookup(d.Path, d.Version)
		if v == nil {
			ok = false
			continue
		}
		for _, r := range v.Reqs {
			queue = append(queue, e4Dep{project.CleanPath(r.Path), r.Version})
		}
	}
	return out, ok
}

func mapString(m map[string]string) string {
	ks := make([]string, 0, len(m))
	for k := range m {
		ks = append(ks, k)
	}
	sort.Strings(ks)
	var sb strings.Builder
	for _, k := range ks {
		fmt.Fprintf(&sb, "%s=%s ", k, m[k])
	}
	return sb.String()
}

// ---------------------------------------------------------------- generation

var e4PrereleasePool = []string{"v1.3.0-alpha.1", "v1.3.0-alpha.2", "v1.3.0-beta.1", "v1.3.0-rc.1", "v1.4.0-rc.1"}

var e4VersionPool = []string{"v0.1.0", "v0.2.0", "v1.0.0", "v1.0.1", "v1.1.0", "v1.2.0-rc.1", "v1.2.0", "v1.10.0", "v1.9.3"}

func e4GenUniverse(r *rand.Rand, tier string) *e4Scenario {
	sc := &e4Scenario{Strategy: []int{simrt.StratUniform, simrt.StratUniform, simrt.StratSticky, simrt.StratPCT, simrt.StratRoundRobin, simrt.StratFIFO}[r.IntN(6)],
		Sticky: []int{50, 90, 99}[r.IntN(3)], PCTDepth: 1 + r.IntN(3)}
	nr := 1 + r.IntN(3)
	for i := 0; i < nr; i++ {
		addr := fmt.Sprintf("github.com/org%d/repo%d", i, i)
		if r.IntN(3) == 0 {
			addr = fmt.Sprintf("host%d.example/group/repo%d", i, i)
		}
		sc.Repos = append(sc.Repos, e4Repo{Addr: addr})
	}
	// a repository nested below a project directory of another (non-GitHub) repository: the
	// project path belongs to the repository with the longest address
	for i := 0; i < nr; i++ {
		if strings.HasPrefix(sc.Repos[i].Addr, "host") && r.IntN(3) == 0 {
			sc.Repos = append(sc.Repos, e4Repo{Addr: sc.Repos[i].Addr + fmt.Sprintf("/sub%d/nested", r.IntN(4))})
		}
	}
	nr = len(sc.Repos)
	np := 2 + r.IntN(5)
	if tier == "thorough" {
		np = 2 + r.IntN(7)
	}
	used := map[string]bool{}
	sharedName := r.IntN(4) == 0
	for i := 0; i < np; i++ {
		p := e4Project{Repo: r.IntN(nr)}
		if r.IntN(3) != 0 {
			p.Sub = fmt.Sprintf("sub%d", r.IntN(4))
			if r.IntN(5) == 0 {
				p.Sub = fmt.Sprintf("libs%d/sub%d", r.IntN(2), r.IntN(4)) // two directories below the repository root
			}
		}
		p.Major = []string{"", "", "", "v2", "v3"}[r.IntN(5)]
		if used[p.path(sc)] {
			continue
		}
		used[p.path(sc)] = true
		nv := 1 + r.IntN(5)
		pool := e4VersionPool
		if r.IntN(7) == 0 {
			// a project that has never been released: every tag is a prerelease
			pool = e4PrereleasePool
			nv = min(nv, len(pool))
		}
		perm := r.Perm(len(pool))
		var vs []string
		for _, k := range perm[:nv] {
			v := pool[k]
			if p.Major != "" {
				v = p.Major + v[strings.IndexByte(v, '.'):]
			}
			vs = append(vs, v)
		}
		sort.Slice(vs, func(a, b int) bool { return semver.Compare(vs[a], vs[b]) < 0 })
		for _, v := range vs {
			name := ""
			if r.IntN(2) == 0 {
				name = fmt.Sprintf("proj%d", i)
			}
			if sharedName && r.IntN(3) != 0 {
				name = "lib" // several projects that call themselves the same
			}
			p.Versions = append(p.Versions, e4Version{Version: v, Name: name, Legacy: r.IntN(6) == 0})
		}
		sc.Projects = append(sc.Projects, p)
	}
	// two projects whose paths differ only in how an upper-case letter is written ("netIO",
	// "net!i!o": cache directory names that escape letters must keep them apart)
	if r.IntN(8) == 0 && len(sc.Projects) >= 2 {
		a, b := &sc.Projects[0], &sc.Projects[1]
		a.Sub, b.Sub, b.Repo, b.Major = "netIO", "net!i!o", a.Repo, a.Major
		b.Versions = nil
		for _, v := range a.Versions {
			b.Versions = append(b.Versions, e4Version{Version: v.Version, Name: "other"})
		}
	}
	// requirement edges of any shape (cycles included)
	type node struct{ p, v int }
	var nodes []node
	for pi := range sc.Projects {
		for vi := range sc.Projects[pi].Versions {
			nodes = append(nodes, node{pi, vi})
		}
	}
	for _, n := range nodes {
		k := r.IntN(4)
		for e := 0; e < k; e++ {
			t := nodes[r.IntN(len(nodes))]
			if t.p == n.p {
				continue
			}
			dep := e4Dep{Path: sc.Projects[t.p].path(sc), Version: sc.Projects[t.p].Versions[t.v].Version}
			dup := false
			for _, x := range sc.Projects[n.p].Versions[n.v].Reqs {
				if x.Path == dep.Path {
					dup = true
				}
			}
			if !dup {
				sc.Projects[n.p].Versions[n.v].Reqs = append(sc.Projects[n.p].Versions[n.v].Reqs, dep)
			}
		}
	}
	// root requirements
	k := r.IntN(5)
	seenPath := map[string]bool{}
	for e := 0; e < k && len(nodes) > 0; e++ {
		t := nodes[r.IntN(len(nodes))]
		pth := sc.Projects[t.p].path(sc)
		if seenPath[pth] {
			continue
		}
		seenPath[pth] = true
		sc.Root = append(sc.Root, e4Req{Name: fmt.Sprintf("req%d", e), Path: pth, Version: sc.Projects[t.p].Versions[t.v].Version})
	}
	return sc
}

func c10Gen(r *rand.Rand, tier string) any {
	sc := e4GenUniverse(r, tier)
	sc.Faults = r.IntN(4) == 0
	if !sc.Faults && r.IntN(4) == 0 {
		sc.Procs = 2 + r.IntN(2)
	}
	// the root may name one project twice, under two names and at two versions
	if len(sc.Root) > 0 && r.IntN(5) == 0 {
		q := sc.Root[r.IntN(len(sc.Root))]
		for pi := range sc.Projects {
			if pr := &sc.Projects[pi]; pr.path(sc) == q.Path && len(pr.Versions) > 1 {
				v := pr.Versions[r.IntN(len(pr.Versions))].Version
				if v != q.Version {
					sc.Root = append(sc.Root, e4Req{Name: fmt.Sprintf("again%d", len(sc.Root)), Path: q.Path, Version: v})
				}
			}
		}
	}
	// some requirements name a revision (a pseudo-version) instead of a tag: the project file
	// is then whatever the repository holds at the project's directory at that revision
	if r.IntN(4) == 0 {
		w := &e4World{sc: sc, hit: map[string]int{}}
		d := w.dialer()
		pseudo := func(pth string) string {
			for pi := range sc.Projects {
				pr := &sc.Projects[pi]
				if pr.path(sc) != pth {
					continue
				}
				repo := d.repos[sc.Repos[pr.Repo].Addr]
				var ids []string
				for id, rev := range repo.revs {
					if rev.projects[pr.Sub] != nil {
						ids = append(ids, id)
					}
				}
				sort.Strings(ids)
				if len(ids) == 0 {
					return ""
				}
				rev := repo.revs[ids[r.IntN(len(ids))]]
				major := pr.Major
				if major == "" {
					major = "v0"
				}
				return module.PseudoVersion(major, "", rev.when, rev.id)
			}
			return ""
		}
		for i := range sc.Root {
			if r.IntN(3) == 0 {
				if v := pseudo(sc.Root[i].Path); v != "" {
					sc.Root[i].Version = v
				}
			}
		}
		for pi := range sc.Projects {
			for vi := range sc.Projects[pi].Versions {
				for ri := range sc.Projects[pi].Versions[vi].Reqs {
					if r.IntN(6) == 0 {
						if v := pseudo(sc.Projects[pi].Versions[vi].Reqs[ri].Path); v != "" {
							sc.Projects[pi].Versions[vi].Reqs[ri].Version = v
						}
					}
				}
			}
		}
	}
	// a resolver that first served another root (a long-lived process: get, then build)
	sc.Reuse = r.IntN(4) == 0
	// rarely, a requirement that names a version that does not exist
	if r.IntN(20) == 0 && len(sc.Projects) > 0 {
		p := &sc.Projects[r.IntN(len(sc.Projects))]
		v := &p.Versions[r.IntN(len(p.Versions))]
		if len(v.Reqs) > 0 {
			v.Reqs[0].Version = "v9.9.9"
		}
	}
	return sc
}

// ---------------------------------------------------------------- running

type e4Run struct {
	sc    *e4Scenario
	c     *simcheck.Ctx
	dir   string
	round int
}

func newE4Run(sc *e4Scenario, c *simcheck.Ctx) (*e4Run, func(), error) {
	base := os.Getenv("VERIF_SCRATCH")
	if base == "" {
		base = filepath.Join(os.TempDir(), fmt.Sprintf("verif-e4-%d", os.Getpid()))
	}
	e4Serial++
	dir := filepath.Join(base, fmt.Sprintf("u%d", e4Serial))
	os.RemoveAll(dir)
	if err := os.MkdirAll(filepath.Join(dir, "tmp"), 0755); err != nil {
		return nil, nil, err
	}
	return &e4Run{sc: sc, c: c, dir: dir}, func() { os.RemoveAll(dir) }, nil
}

var e4Serial int

func (sc *e4Scenario) config(root []e4Req) *project.Config {
	cfg := &project.Config{Requirements: map[string]project.RequirementConfig{}}
	for _, r := range root {
		cfg.Requirements[r.Name] = project.RequirementConfig{Path: r.Path, Version: r.Version}
	}
	return cfg
}

// call runs f inside a fresh simulated process with a fresh resolver on the given cache.
func (e *e4Run) call(cache string, faults bool, f func(res *Resolver) error) (*simrt.Sim, *e4World, error) {
	e.round++
	name := fmt.Sprintf("call%d", e.round)
	ts := e.c.Tapes
	cfg := simrt.Config{Sched: ts.Get(name + ".sched"), Misc: ts.Get(name + ".misc"), Fault: ts.Get(name + ".fault"), Strategy: e.sc.Strategy,
		StickyNum: e.sc.Sticky, PCTDepth: e.sc.PCTDepth, PCTEst: 400, TempDir: filepath.Join(e.dir, "tmp"), MaxSteps: 300000}
	if faults {
		cfg.IOErrPerMille = 15
	}
	if e.c.Trace {
		cfg.TraceMax = 3000
	}
	s := simrt.New(cfg)
	w := &e4World{sc: e.sc, sim: s, faults: faults, hit: map[string]int{}}
	var err error
	s.Run(func() {
		res := NewResolver(filepath.Join(e.dir, cache), w.dialer(), nil)
		err = f(res)
	})
	e.c.Sim(s, simcheck.ScenarioHash(e.sc), e.sc.Strategy)
	return s, w, err
}

// callRetry: one resolver (a long-lived process) performs f while repository and I/O faults
// are injected, then - the faults having stopped - performs it again.
func (e *e4Run) callRetry(cache string, f func(res *Resolver, attempt int)) (*simrt.Sim, int, bool) {
	e.round++
	name := fmt.Sprintf("call%d", e.round)
	ts := e.c.Tapes
	cfg := simrt.Config{Sched: ts.Get(name + ".sched"), Misc: ts.Get(name + ".misc"), Fault: ts.Get(name + ".fault"), Strategy: e.sc.Strategy,
		StickyNum: e.sc.Sticky, PCTDepth: e.sc.PCTDepth, PCTEst: 600, TempDir: filepath.Join(e.dir, "tmp"), MaxSteps: 600000, IOErrPerMille: 15}
	if e.c.Trace {
		cfg.TraceMax = 3000
	}
	s := simrt.New(cfg)
	w := &e4World{sc: e.sc, sim: s, faults: true, hit: map[string]int{}}
	injected := 0
	s.Run(func() {
		res := NewResolver(filepath.Join(e.dir, cache), w.dialer(), nil)
		f(res, 0)
		injected = totalFaults(s)
		w.faults, s.Cfg.IOErrPerMille = false, 0
		f(res, 1)
	})
	e.c.Sim(s, simcheck.ScenarioHash(e.sc), e.sc.Strategy)
	// the signature of known finding K2: the dial of a repository nested below another
	// repository's directory failed, so discovery moved on to the enclosing repository
	return s, injected, w.hit["dial-nested"] > 0
}

// callN runs n resolvers (as n dawn processes would) concurrently on one cache.
func (e *e4Run) callN(cache string, n int, f func(i int, res *Resolver)) (*simrt.Sim, *e4World, error) {
	e.round++
	name := fmt.Sprintf("call%d", e.round)
	ts := e.c.Tapes
	cfg := simrt.Config{Sched: ts.Get(name + ".sched"), Misc: ts.Get(name + ".misc"), Fault: ts.Get(name + ".fault"), Strategy: e.sc.Strategy,
		StickyNum: e.sc.Sticky, PCTDepth: e.sc.PCTDepth, PCTEst: 800, TempDir: filepath.Join(e.dir, "tmp"), MaxSteps: 600000}
	if e.c.Trace {
		cfg.TraceMax = 3000
	}
	s := simrt.New(cfg)
	w := &e4World{sc: e.sc, sim: s, hit: map[string]int{}}
	s.Run(func() {
		var wg simsync.WaitGroup
		for i := 0; i < n; i++ {
			i := i
			wg.Add(1)
			simrt.Go(func() {
				defer wg.Done()
				f(i, NewResolver(filepath.Join(e.dir, cache), w.dialer(), nil))
			})
		}
		wg.Wait()
	})
	e.c.Sim(s, simcheck.ScenarioHash(e.sc), e.sc.Strategy)
	return s, w, nil
}

func simFailure(s *simrt.Sim) *simcheck.Violation {
	if s.Stuck {
		return simcheck.V(simcheck.EngineError, "watchdog")
	}
	if f := s.Failure; f != nil {
		switch f.Kind {
		case simrt.FailDeadlock:
			return simcheck.V("deadlock", "resolution deadlocked: %s", f.Gs)
		case simrt.FailBudget:
			return simcheck.V("no-termination", "%s", f.Msg)
		default:
			return simcheck.V("panic", "%s: %s %s", f.Kind, f.Msg, f.Stack)
		}
	}
	return nil
}

func totalFaults(s *simrt.Sim) int {
	n := 0
	for _, v := range s.FaultsHit {
		n += v
	}
	return n
}

func c10Exec(scAny any, c *simcheck.Ctx) *simcheck.Violation {
	sc := scAny.(*e4Scenario)
	if len(sc.Repos) == 0 {
		return nil
	}
	e, cleanup, err := newE4Run(sc, c)
	if err != nil {
		return simcheck.V(simcheck.EngineError, "%v", err)
	}
	defer cleanup()
	want, resolvable := sc.modelBuildList(sc.Root)
	permuted := func(k int) []e4Req {
		out := append([]e4Req{}, sc.Root...)
		t := c.Tapes.Get(fmt.Sprintf("perm%d", k))
		for i := len(out) - 1; i > 0; i-- {
			j := t.Intn(i + 1)
			out[i], out[j] = out[j], out[i]
		}
		for i := range out {
			out[i].Name = fmt.Sprintf("n%d_%d", k, len(out)-i)
		}
		return out
	}
	check := func(what string, root []e4Req, cache string, faults bool) *simcheck.Violation {
		var got map[string]string
		s, _, err := e.call(cache, faults, func(res *Resolver) error {
			var err error
			got, err = BuildList(context.Background(), sc.config(root), res)
			return err
		})
		if v := simFailure(s); v != nil {
			v.Msg = what + ": " + v.Msg
			return v
		}
		injected := totalFaults(s)
		if err != nil {
			if !resolvable {
				c.St.Count("unresolvable_universe_rejected", 1)
				return nil
			}
			if injected > 0 {
				c.St.Count("failed_under_injected_faults", 1)
				return nil
			}
			return simcheck.V("buildlist-error", "%s: resolution failed although every reachable requirement exists and no fault was injected: %v", what, err)
		}
		if !resolvable {
			return simcheck.V("buildlist-accepts-missing", "%s: a reachable requirement names a version that does not exist, yet resolution succeeded with %s", what, mapString(got))
		}
		if mapString(got) != mapString(want) {
			return simcheck.V("buildlist-wrong", "%s: resolved build list {%s} is not the minimal-version-selection solution {%s}", what, mapString(got), mapString(want))
		}
		if injected > 0 {
			c.St.Count("correct_despite_injected_faults", 1)
		}
		c.St.Count("buildlists_checked", 1)
		return nil
	}
	if sc.Faults {
		if v := check("cold cache with injected faults", sc.Root, "cacheF", true); v != nil {
			return v
		}
		// bounded liveness: once faults stop, one more call succeeds
		if v := check("after faults stopped", sc.Root, "cacheF", false); v != nil {
			return v
		}
		// the cache is warm now: faults while reading it may fail the call, never change its answer
		if v := check("warm cache with injected faults", sc.Root, "cacheF", true); v != nil {
			return v
		}
		// ... also on the resolver that met the faults (a long-lived process that retries)
		var got [2]map[string]string
		var errs [2]error
		s, injected, k2 := e.callRetry("cacheG", func(res *Resolver, attempt int) {
			got[attempt], errs[attempt] = BuildList(context.Background(), sc.config(sc.Root), res)
		})
		if v := simFailure(s); v != nil {
			v.Msg = "one resolver, faults then none: " + v.Msg
			return v
		}
		if injected > 0 {
			c.St.Count("same_resolver_retries_after_faults", 1)
		}
		k2class := func(class string) string {
			if k2 {
				return "nested-repository-misrouted-after-dial-failure"
			}
			return class
		}
		if errs[1] != nil {
			if resolvable {
				return simcheck.V(k2class("buildlist-error"), "a resolver that met %d injected faults (first attempt: %v) was asked again after the faults had stopped and still fails: %v", injected, errs[0], errs[1])
			}
		} else if !resolvable {
			return simcheck.V("buildlist-accepts-missing", "a resolver retrying after injected faults resolved a universe with a dangling requirement")
		} else if mapString(got[1]) != mapString(want) {
			return simcheck.V(k2class("buildlist-wrong"), "a resolver that met %d injected faults (first attempt: %v) was asked again after the faults had stopped and resolved {%s}, not the minimal-version-selection solution {%s}", injected, errs[0], mapString(got[1]), mapString(want))
		}
		return nil
	}
	if sc.Procs > 1 {
		// several dawn processes resolving the same requirements against one cold cache
		results := make([]map[string]string, sc.Procs)
		errs := make([]error, sc.Procs)
		s, _, _ := e.callN("cacheC", sc.Procs, func(i int, res *Resolver) {
			results[i], errs[i] = BuildList(context.Background(), sc.config(sc.Root), res)
		})
		if v := simFailure(s); v != nil {
			v.Msg = "concurrent processes on one cold cache: " + v.Msg
			return v
		}
		c.St.Count("concurrent_resolutions", 1)
		for i := range results {
			if errs[i] != nil {
				if !resolvable {
					continue
				}
				return simcheck.V("buildlist-error", "%d processes resolving against one cold cache: process %d failed although every reachable requirement exists and no fault was injected: %v", sc.Procs, i, errs[i])
			}
			if !resolvable {
				return simcheck.V("buildlist-accepts-missing", "concurrent processes: a reachable requirement names a version that does not exist, yet resolution succeeded")
			}
			if mapString(results[i]) != mapString(want) {
				return simcheck.V("buildlist-wrong", "%d processes resolving against one cold cache: process %d resolved {%s}, not the minimal-version-selection solution {%s}", sc.Procs, i, mapString(results[i]), mapString(want))
			}
		}
		// the cache they left behind must serve a later process correctly
		return check("warm cache left by concurrent processes", sc.Root, "cacheC", false)
	}
	if sc.Reuse {
		if v := c10Reuse(e, sc, c, want, resolvable); v != nil {
			return v
		}
	}
	if v := check("cold cache", sc.Root, "cache1", false); v != nil {
		return v
	}
	if v := check("warm cache, permuted declaration order and names", permuted(1), "cache1", false); v != nil {
		return v
	}
	// partially filled cache: pre-fetch a tape-chosen subset of project versions
	t := c.Tapes.Get("prefill")
	var pre []e4Dep
	wantKeys := make([]string, 0, len(want))
	for k := range want {
		wantKeys = append(wantKeys, k)
	}
	sort.Strings(wantKeys) // draws must not depend on Go's map order
	for _, k := range wantKeys {
		if k != "" && t.Intn(2) == 0 {
			pre = append(pre, e4Dep{k, want[k]})
		}
	}
	if len(pre) > 0 && resolvable {
		s, _, _ := e.call("cache2", false, func(res *Resolver) error {
			for _, d := range pre {
				res.FetchProject(context.Background(), project.RequirementConfig{Path: d.Path, Version: d.Version})
			}
			return nil
		})
		if v := simFailure(s); v != nil {
			return v
		}
		c.St.Count("partially_filled_caches", 1)
	}
	return check("partially filled cache, permuted declaration order", permuted(2), "cache2", false)
}

// c10Reuse: one resolver answers for two different roots in turn; what it memoised for the
// first must not change the answer for the second.
func c10Reuse(e *e4Run, sc *e4Scenario, c *simcheck.Ctx, want map[string]string, resolvable bool) *simcheck.Violation {
	t := c.Tapes.Get("reuse")
	var other []e4Req
	for _, q := range sc.Root {
		switch t.Intn(3) {
		case 0: // dropped
		case 1:
			other = append(other, q)
		default: // the same project at another of its versions
			for pi := range sc.Projects {
				if pr := &sc.Projects[pi]; pr.path(sc) == q.Path {
					q.Version = pr.Versions[t.Intn(len(pr.Versions))].Version
				}
			}
			other = append(other, q)
		}
	}
	if len(sc.Projects) > 0 && t.Intn(2) == 0 {
		pr := &sc.Projects[t.Intn(len(sc.Projects))]
		dup := false
		for _, q := range other {
			dup = dup || q.Path == pr.path(sc)
		}
		if !dup {
			other = append(other, e4Req{Name: "extra", Path: pr.path(sc), Version: pr.Versions[t.Intn(len(pr.Versions))].Version})
		}
	}
	wantOther, okOther := sc.modelBuildList(other)
	var got1, got2 map[string]string
	var err1, err2 error
	s, _, _ := e.call("cacheR", false, func(res *Resolver) error {
		got1, err1 = BuildList(context.Background(), sc.config(other), res)
		got2, err2 = BuildList(context.Background(), sc.config(sc.Root), res)
		return nil
	})
	if v := simFailure(s); v != nil {
		v.Msg = "one resolver, two roots: " + v.Msg
		return v
	}
	c.St.Count("resolver_reused_for_second_root", 1)
	for _, x := range []struct {
		what string
		got  map[string]string
		err  error
		want map[string]string
		ok   bool
	}{{"first root", got1, err1, wantOther, okOther}, {"second root on the same resolver", got2, err2, want, resolvable}} {
		if x.err != nil {
			if !x.ok {
				continue
			}
			return simcheck.V("buildlist-error", "one resolver, two roots: %s: resolution failed although every reachable requirement exists and no fault was injected: %v", x.what, x.err)
		}
		if !x.ok {
			return simcheck.V("buildlist-accepts-missing", "one resolver, two roots: %s: a reachable requirement names a version that does not exist, yet resolution succeeded", x.what)
		}
		if mapString(x.got) != mapString(x.want) {
			return simcheck.V("buildlist-wrong", "one resolver, two roots: %s resolved {%s}, not the minimal-version-selection solution {%s}", x.what, mapString(x.got), mapString(x.want))
		}
	}
	return nil
}

func e4Simplify(scAny any) []any {
	sc := scAny.(*e4Scenario)
	var out []any
	clone := func() *e4Scenario {
		c := *sc
		c.Repos = append([]e4Repo{}, sc.Repos...)
		c.Root = append([]e4Req{}, sc.Root...)
		c.Ops = append([]e4Op{}, sc.Ops...)
		c.Projects = make([]e4Project, len(sc.Projects))
		for i, p := range sc.Projects {
			c.Projects[i] = p
			c.Projects[i].Versions = make([]e4Version, len(p.Versions))
			for j, v := range p.Versions {
				c.Projects[i].Versions[j] = v
				c.Projects[i].Versions[j].Reqs = append([]e4Dep{}, v.Reqs...)
			}
		}
		return &c
	}
	for i := range sc.Ops {
		c := clone()
		c.Ops = append(c.Ops[:i:i], c.Ops[i+1:]...)
		out = append(out, c)
	}
	for i := range sc.Root {
		c := clone()
		c.Root = append(c.Root[:i:i], c.Root[i+1:]...)
		out = append(out, c)
	}
	for pi := range sc.Projects {
		for vi := range sc.Projects[pi].Versions {
			for ri := range sc.Projects[pi].Versions[vi].Reqs {
				c := clone()
				r := c.Projects[pi].Versions[vi].Reqs
				c.Projects[pi].Versions[vi].Reqs = append(r[:ri:ri], r[ri+1:]...)
				out = append(out, c)
			}
		}
	}
	if sc.Faults {
		c := clone()
		c.Faults = false
		out = append(out, c)
	}
	if sc.Reuse {
		c := clone()
		c.Reuse = false
		out = append(out, c)
	}
	return out
}

var e4Props = map[string]*simcheck.Prop{
	"C10": {ID: "C10", Gen: c10Gen, New: func() any { return &e4Scenario{} }, Exec: c10Exec, Simplify: e4Simplify},
}

func TestVerifWorker(t *testing.T) {
	if os.Getenv("VERIF_PROP") == "" {
		t.Skip("not a verification run")
	}
	os.Exit(simcheck.Main(e4Props))
}

// ---------------------------------------------------------------- C11

func c11Gen(r *rand.Rand, tier string) any {
	var sc *e4Scenario
	for try := 0; try < 20; try++ {
		sc = e4GenUniverse(r, tier)
		if len(sc.Root) > 0 {
			break
		}
	}
	n := 1 + r.IntN(5)
	for i := 0; i < n; i++ {
		switch r.IntN(8) {
		case 0, 1:
			sc.Ops = append(sc.Ops, e4Op{Op: "tidy"})
		case 2:
			sc.Ops = append(sc.Ops, e4Op{Op: "upgrade-all"})
		default:
			p := &sc.Projects[r.IntN(len(sc.Projects))]
			pth := p.path(sc)
			v := p.Versions[r.IntN(len(p.Versions))].Version
			var q string
			switch r.IntN(14) {
			case 13:
				// the bare-major spelling of "latest": path@v1 (path@v0) names the same
				// project as path
				if strings.Contains(pth, "@") {
					q = pth + "@latest"
				} else {
					q = pth + "@" + semver.Major(v)
				}
			case 11, 12:
				q = pth + "@main"
			case 0:
				q = pth
			case 1:
				q = pth + "@latest"
			case 2:
				q = pth + "@upgrade"
			case 3:
				q = pth + "@patch"
			case 4, 5:
				q = pth + "@" + v
			case 6:
				q = pth + "@" + semver.MajorMinor(v)
			case 7:
				q = pth + "@>" + v
			case 8:
				q = pth + "@>=" + v
			case 9:
				q = pth + "@<" + v
			case 10:
				q = pth + "@<=" + v
			}
			op := e4Op{Op: "get", Query: q}
			if !strings.Contains(pth, "@") && r.IntN(6) == 0 {
				// another spelling of the same request: an explicit @v0 / @v1 on a path whose
				// canonical form has none, or a path that cleaning changes
				if qp, rest := project.SplitPathVersion(q); rest != "" && semver.Major(rest) != rest && qp == pth {
					op.Canon = q
					if r.IntN(3) == 0 {
						op.Query = strings.Replace(pth, "/", "//", 1) + "@" + rest
					} else {
						op.Query = pth + "@" + []string{"v0", "v1"}[r.IntN(2)] + "@" + rest
					}
				}
			}
			sc.Ops = append(sc.Ops, op)
		}
	}
	switch r.IntN(6) {
	case 0:
		sc.Procs = 2 + r.IntN(2) // every operation is performed by this many processes at once, on one cache
	case 1:
		sc.Faults = true // every operation is first attempted under faults, then again by the same resolver
	case 2:
		sc.OneResolver = true
		// a long-lived process tends to ask the same thing again later
		if gets := len(sc.Ops); gets > 0 && r.IntN(2) == 0 {
			sc.Ops = append(sc.Ops, sc.Ops[r.IntN(gets)])
		}
	}
	return sc
}

func reqsToRoot(m map[string]project.RequirementConfig) []e4Req {
	var out []e4Req
	for n, r := range m {
		out = append(out, e4Req{Name: n, Path: r.Path, Version: r.Version})
	}
	sort.Slice(out, func(i, j int) bool { return out[i].Name < out[j].Name })
	return out
}

func reqsString(m map[string]project.RequirementConfig) string {
	var sb strings.Builder
	for _, r := range reqsToRoot(m) {
		fmt.Fprintf(&sb, "%s=%s@%s ", r.Name, r.Path, r.Version)
	}
	return sb.String()
}

func c11Exec(scAny any, c *simcheck.Ctx) *simcheck.Violation {
	sc := scAny.(*e4Scenario)
	if len(sc.Repos) == 0 || len(sc.Root) == 0 {
		return nil
	}
	e, cleanup, err := newE4Run(sc, c)
	if err != nil {
		return simcheck.V(simcheck.EngineError, "%v", err)
	}
	defer cleanup()
	buildList := func(root []e4Req) (map[string]string, error, *simcheck.Violation) {
		var got map[string]string
		s, _, err := e.call("cache", false, func(res *Resolver) error {
			var err error
			got, err = BuildList(context.Background(), sc.config(root), res)
			return err
		})
		return got, err, simFailure(s)
	}
	do := func(op e4Op, root []e4Req, res *Resolver) (map[string]project.RequirementConfig, error) {
		switch op.Op {
		case "tidy":
			return Tidy(context.Background(), sc.config(root), res)
		case "upgrade-all":
			return UpgradeAll(context.Background(), sc.config(root), res)
		default:
			return Get(context.Background(), sc.config(root), res, op.Query)
		}
	}
	apply := func(op e4Op, root []e4Req) (map[string]project.RequirementConfig, error, *simcheck.Violation) {
		if sc.Procs > 1 {
			// several dawn processes perform the same operation at the same time on one cache:
			// each must arrive at what one alone arrives at
			outs := make([]map[string]project.RequirementConfig, sc.Procs)
			errs := make([]error, sc.Procs)
			s, _, _ := e.callN("cache", sc.Procs, func(i int, res *Resolver) { outs[i], errs[i] = do(op, root, res) })
			if v := simFailure(s); v != nil {
				return nil, nil, v
			}
			c.St.Count("operations_by_concurrent_processes", 1)
			var alone map[string]project.RequirementConfig
			s2, _, errAlone := e.call("cache", false, func(res *Resolver) error {
				var err error
				alone, err = do(op, root, res)
				return err
			})
			if v := simFailure(s2); v != nil {
				return nil, nil, v
			}
			for i := range outs {
				if (errs[i] == nil) != (errAlone == nil) {
					return nil, nil, simcheck.V("concurrent-result-differs", "%s %s by %d processes at once on one cache: process %d ended with error %v, a process alone with %v", op.Op, op.Query, sc.Procs, i, errs[i], errAlone)
				}
				if errAlone == nil && reqsString(outs[i]) != reqsString(alone) {
					return nil, nil, simcheck.V("concurrent-result-differs", "%s %s by %d processes at once on one cache: process %d arrived at {%s}, a process alone at {%s}", op.Op, op.Query, sc.Procs, i, reqsString(outs[i]), reqsString(alone))
				}
			}
			return alone, errAlone, nil
		}
		if sc.Faults {
			var outs [2]map[string]project.RequirementConfig
			var errs [2]error
			s, injected, k2 := e.callRetry("cacheT", func(res *Resolver, attempt int) { outs[attempt], errs[attempt] = do(op, root, res) })
			k2class := "retry-after-fault-differs"
			if k2 {
				k2class = "nested-repository-misrouted-after-dial-failure"
			}
			if v := simFailure(s); v != nil {
				return nil, nil, v
			}
			var alone map[string]project.RequirementConfig
			s2, _, errAlone := e.call("cache", false, func(res *Resolver) error {
				var err error
				alone, err = do(op, root, res)
				return err
			})
			if v := simFailure(s2); v != nil {
				return nil, nil, v
			}
			if injected > 0 {
				c.St.Count("same_resolver_retries_after_faults", 1)
			}
			if (errs[1] == nil) != (errAlone == nil) {
				return nil, nil, simcheck.V(k2class, "%s %s: a resolver that met %d injected faults (first attempt: %v) tried again after they had stopped and ended with error %v; a fresh resolver ends with %v", op.Op, op.Query, injected, errs[0], errs[1], errAlone)
			}
			if errAlone == nil && reqsString(outs[1]) != reqsString(alone) {
				return nil, nil, simcheck.V(k2class, "%s %s: a resolver that met %d injected faults (first attempt: %v) tried again after they had stopped and arrived at {%s}; a fresh resolver arrives at {%s}", op.Op, op.Query, injected, errs[0], reqsString(outs[1]), reqsString(alone))
			}
			return alone, errAlone, nil
		}
		var out map[string]project.RequirementConfig
		s, _, err := e.call("cache", false, func(res *Resolver) error {
			var err error
			switch op.Op {
			case "tidy":
				out, err = Tidy(context.Background(), sc.config(root), res)
			case "upgrade-all":
				out, err = UpgradeAll(context.Background(), sc.config(root), res)
			case "get":
				out, err = Get(context.Background(), sc.config(root), res, op.Query)
			}
			return err
		})
		return out, err, simFailure(s)
	}
	var steps []c11Step
	root := sc.Root
	oldBL, err, v := buildList(root)
	if v != nil {
		return v
	}
	if err != nil {
		c.St.Count("initial_buildlist_failed", 1)
		return nil
	}
	for i, op := range sc.Ops {
		what := fmt.Sprintf("operation %d (%s %s) on requirements {%s}", i, op.Op, op.Query, reqsString(sc.config(root).Requirements))
		newReqs, err, v := apply(op, root)
		if v != nil {
			v.Msg = what + ": " + v.Msg
			return v
		}
		if err != nil {
			c.St.Count("operation_rejected", 1)
			return nil
		}
		newRoot := reqsToRoot(newReqs)
		newBL, err, v := buildList(newRoot)
		if v != nil {
			return v
		}
		if err != nil {
			return simcheck.V("result-unresolvable", "%s produced requirements {%s} whose build list cannot be computed: %v", what, reqsString(newReqs), err)
		}
		c.St.Count("operations_checked", 1)
		// names: an existing requirement name keeps denoting the same project
		for _, o := range root {
			stillRequired := false
			for _, nr := range newReqs {
				if project.CleanPath(nr.Path) == project.CleanPath(o.Path) {
					stillRequired = true
				}
			}
			if !stillRequired {
				continue // the requirement was dropped (implied by another one); its name is free
			}
			nr, ok := newReqs[o.Name]
			if !ok {
				return simcheck.V("name-lost", "%s: %s is still required but its name %q was not preserved (now {%s})", what, o.Path, o.Name, reqsString(newReqs))
			}
			if project.CleanPath(nr.Path) != project.CleanPath(o.Path) {
				return simcheck.V("name-reused", "%s: requirement name %q denoted %s, which is still required, and now denotes %s", what, o.Name, o.Path, nr.Path)
			}
		}
		lowered := func() string {
			for p, ov := range oldBL {
				if p == "" {
					continue
				}
				nv, ok := newBL[p]
				if !ok || semver.Compare(nv, ov) < 0 {
					return fmt.Sprintf("%s %s -> %q", p, ov, nv)
				}
			}
			return ""
		}
		if op.Op == "get" && op.Canon != "" {
			// the same request in its canonical spelling gives the same requirements
			twin, terr, v := apply(e4Op{Op: "get", Query: op.Canon}, root)
			if v != nil {
				return v
			}
			c.St.Count("gets_compared_with_their_canonical_spelling", 1)
			if terr == nil && reqsString(twin) != reqsString(newReqs) {
				return simcheck.V("spelling-changes-result", "%s gave {%s}; the same request spelled %s gives {%s}", what, reqsString(newReqs), op.Canon, reqsString(twin))
			}
		}
		switch op.Op {
		case "tidy":
			if mapString(newBL) != mapString(oldBL) {
				return simcheck.V("tidy-changes-buildlist", "%s: build list was {%s} and is {%s} after tidy", what, mapString(oldBL), mapString(newBL))
			}
		case "upgrade-all":
			if l := lowered(); l != "" {
				return simcheck.V("upgrade-lowers", "%s: upgrading all lowered %s", what, l)
			}
			// "contains the resolved version": every project ends at least at the highest tag
			// of the major version it was at
			for p, ov := range oldBL {
				if p == "" {
					continue
				}
				want := ov
				for pi := range sc.Projects {
					if sc.Projects[pi].path(sc) == p {
						for _, tv := range sc.Projects[pi].Versions {
							if semver.Major(tv.Version) == semver.Major(ov) && semver.Compare(tv.Version, want) > 0 {
								want = tv.Version
							}
						}
					}
				}
				if nv := newBL[p]; semver.Compare(nv, want) < 0 {
					return simcheck.V("upgrade-all-misses", "%s: %s was at %s and its highest %s tag is %s, but after upgrading all it is at %q", what, p, ov, semver.Major(ov), want, nv)
				}
			}
			c.St.Count("upgrade_all_checked_against_the_highest_tags", 1)
		case "get":
			qpath, query := project.SplitPathVersion(op.Query)
			if query != "" && semver.Major(query) == query {
				qpath, query = op.Query, "latest"
			}
			qpath = project.CleanPath(qpath)
			nv, ok := newBL[qpath]
			ov, had := oldBL[qpath]
			if !ok {
				// a downgrade may have to drop the project altogether (no consistent lower
				// version exists): "at or below" with nothing left. Only queries that can
				// lower the project may do that.
				lowering := query != "upgrade" && query != "patch" && !(query != "" && query[0] == '>')
				// ... and so may any query that resolves below the version selected now (a
				// lower bound met only by tags older than the pseudo-version in use): dawn
				// resolves the query to one version first and then moves the project to it
				if r := sc.resolveQuery(qpath, query); had && r != "" && semver.Compare(r, ov) < 0 {
					lowering = true
				}
				if had && lowering {
					c.St.Count("downgraded_to_none", 1)
					root, oldBL = newRoot, newBL
					continue
				}
				return simcheck.V("get-missing", "%s: the build list {%s} does not contain %s", what, mapString(newBL), qpath)
			}
			upgrade := !had || semver.Compare(nv, ov) >= 0
			// A request below the version currently selected is a downgrade request whatever
			// the outcome looks like: the project must end at or below what was asked for.
			if had {
				switch {
				case semver.IsValid(query) && semver.Canonical(query) == query && semver.Compare(query, ov) < 0:
					upgrade = false
				case strings.HasPrefix(query, "<=") && semver.Compare(ov, query[2:]) > 0:
					upgrade = false
				case strings.HasPrefix(query, "<") && !strings.HasPrefix(query, "<=") && semver.Compare(ov, query[1:]) >= 0:
					upgrade = false
				}
			}
			pred := func(v string) (bool, string) {
				switch {
				case query == "" || query == "latest" || query == "upgrade" || query == "patch":
					return true, ""
				case query[0] == '>' && len(query) > 1 && query[1] == '=':
					return semver.Compare(v, query[2:]) >= 0, ">= " + query[2:]
				case query[0] == '>':
					return semver.Compare(v, query[1:]) > 0, "> " + query[1:]
				case query[0] == '<':
					// an upper bound constrains the version asked for, not the build list:
					// another reachable requirement may legitimately demand more
					return true, ""
				case semver.IsValid(query) && semver.Canonical(query) == query:
					// the build list holds the maximum of all demands: at least the version asked for
					return semver.Compare(v, query) >= 0, ">= " + query
				case semver.IsValid(query):
					return semver.Compare(v, semver.Canonical(query)) >= 0, ">= " + semver.Canonical(query)
				}
				return true, ""
			}
			if upgrade {
				if okp, desc := pred(nv); !okp {
					// the current version may already satisfy nothing better: the query could only be met by a downgrade
					return simcheck.V("get-wrong-version", "%s: %s is at %s in the new build list, which does not satisfy %s", what, qpath, nv, desc)
				}
				if l := lowered(); l != "" {
					return simcheck.V("upgrade-lowers", "%s: upgrading %s lowered %s", what, qpath, l)
				}
				{
					// "the build list contains the resolved version": the get adds a requirement on
					// the version the query denotes; unless that is below the version in use (a
					// lowering request) the build list holds at least that version
					// (path@v0 and path@v1 both mean "the latest v0 or v1 version": dawn cleans the
					// path before it derives the major version to match)
					want := sc.resolveQuery(qpath, query)
					switch {
					case query == "upgrade" && had:
						if l := sc.resolveQuery(qpath, "latest"); l != "" && semver.Compare(l, ov) > 0 {
							want = l
						}
					case query == "patch" && had:
						// the highest version with the major.minor in use
						want = sc.resolveQuery(qpath, ">="+ov+"|"+semver.MajorMinor(ov))
					}
					if want != "" && (!had || semver.Compare(want, ov) >= 0) && semver.Compare(nv, want) < 0 {
						return simcheck.V("get-wrong-version", "%s: the query denotes %s@%s but the new build list has the project at %s", what, qpath, want, nv)
					}
					if want != "" {
						c.St.Count("gets_checked_against_the_resolved_version", 1)
					}
				}
				if query == "upgrade" && had && semver.Compare(nv, ov) < 0 {
					return simcheck.V("upgrade-lowers", "%s: an upgrade query lowered %s from %s to %s", what, qpath, ov, nv)
				}
			} else {
				c.St.Count("downgrades", 1)
				// at or below the requested version
				switch {
				case semver.IsValid(query) && semver.Canonical(query) == query:
					if semver.Compare(nv, query) > 0 {
						return simcheck.V("downgrade-above-request", "%s: %s is at %s, above the requested %s", what, qpath, nv, query)
					}
				case strings.HasPrefix(query, "<") && !strings.HasPrefix(query, "<="):
					if semver.Compare(nv, query[1:]) >= 0 {
						return simcheck.V("downgrade-above-request", "%s: %s is at %s, not below the requested bound %s", what, qpath, nv, query)
					}
				case strings.HasPrefix(query, "<="):
					bound := query[2:]
					if semver.Compare(nv, bound) > 0 {
						return simcheck.V("downgrade-above-request", "%s: %s is at %s, above the requested bound %s", what, qpath, nv, query)
					}
				case query == "upgrade":
					return simcheck.V("upgrade-lowers", "%s: an upgrade query lowered %s from %s to %s", what, qpath, ov, nv)
				}
			}
		}
		// repeating the operation changes nothing
		again, err, v := apply(op, newRoot)
		if v != nil {
			return v
		}
		if err == nil && reqsString(again) != reqsString(newReqs) {
			cls := "not-idempotent"
			if op.Op == "get" {
				// Repeating a get is a no-op exactly when the first one left the project at the
				// version the query resolves to. Minimal version selection cannot always do
				// that: a downgrade may have to land lower, a requirement cycle may lift the
				// project higher. Those cases are a known finding; anything else is not.
				qp, q := project.SplitPathVersion(op.Query)
				if q != "" && semver.Major(q) == q {
					qp, q = op.Query, "latest"
				}
				qp = project.CleanPath(qp)
				if want := sc.resolveQuery(qp, q); want == "" || newBL[qp] != want {
					cls = "get-not-idempotent-version-not-reached"
				}
			}
			return simcheck.V(cls, "%s gave {%s}; repeating it on the result gave {%s}", what, reqsString(newReqs), reqsString(again))
		}
		steps = append(steps, c11Step{op, root, newReqs})
		root, oldBL = newRoot, newBL
	}
	if sc.OneResolver && len(steps) > 1 {
		// the same operations, on the same requirement sets, by one resolver that lives on
		outs := make([]map[string]project.RequirementConfig, len(steps))
		errs := make([]error, len(steps))
		s, _, _ := e.call("cache", false, func(res *Resolver) error {
			for i, st := range steps {
				outs[i], errs[i] = do(st.op, st.root, res)
			}
			return nil
		})
		if v := simFailure(s); v != nil {
			return v
		}
		c.St.Count("histories_repeated_by_one_long_lived_resolver", 1)
		for i, st := range steps {
			if errs[i] != nil {
				return simcheck.V("long-lived-resolver-differs", "operation %d (%s %s) on requirements {%s}: a resolver that had performed the %d operations before it ended with error %v; a fresh resolver gives {%s}", i, st.op.Op, st.op.Query, reqsString(sc.config(st.root).Requirements), i, errs[i], reqsString(st.out))
			}
			if reqsString(outs[i]) != reqsString(st.out) {
				return simcheck.V("long-lived-resolver-differs", "operation %d (%s %s) on requirements {%s}: a resolver that had performed the %d operations before it gives {%s}; a fresh resolver gives {%s}", i, st.op.Op, st.op.Query, reqsString(sc.config(st.root).Requirements), i, reqsString(outs[i]), reqsString(st.out))
			}
		}
	}
	return nil
}

type c11Step struct {
	op   e4Op
	root []e4Req
	out  map[string]project.RequirementConfig
}

// resolveQuery gives the version a query denotes according to its documented meaning
// (the highest version of the project that satisfies it), or "" if this model does not
// cover the query kind.
func (sc *e4Scenario) resolveQuery(qpath, query string) string {
	var versions []string
	for pi := range sc.Projects {
		if sc.Projects[pi].path(sc) == qpath {
			for _, v := range sc.Projects[pi].Versions {
				versions = append(versions, v.Version)
			}
		}
	}
	sort.Slice(versions, func(i, j int) bool { return semver.Compare(versions[i], versions[j]) > 0 })
	accept := func(v string) bool { return false }
	switch {
	case query == "" || query == "latest":
		for _, v := range versions {
			if semver.Prerelease(v) == "" {
				return v
			}
		}
		if len(versions) > 0 {
			return versions[0]
		}
		return ""
	case query == "upgrade" || query == "patch":
		return ""
	case strings.HasPrefix(query, ">=") && strings.Contains(query, "|"):
		// (internal) at or above a version, within one major.minor
		f := strings.SplitN(query[2:], "|", 2)
		accept = func(v string) bool { return semver.Compare(v, f[0]) >= 0 && semver.MajorMinor(v) == f[1] }
	case strings.HasPrefix(query, ">="):
		accept = func(v string) bool { return semver.Compare(v, query[2:]) >= 0 }
	case strings.HasPrefix(query, ">"):
		accept = func(v string) bool { return semver.Compare(v, query[1:]) > 0 }
	case strings.HasPrefix(query, "<="):
		accept = func(v string) bool { return semver.Compare(v, query[2:]) <= 0 }
	case strings.HasPrefix(query, "<"):
		accept = func(v string) bool { return semver.Compare(v, query[1:]) < 0 }
	case semver.IsValid(query) && semver.Canonical(query) == query:
		accept = func(v string) bool { return v == query }
	default:
		return ""
	}
	for _, v := range versions {
		if accept(v) {
			return v
		}
	}
	return ""
}

func init() {
	e4Props["C11"] = &simcheck.Prop{ID: "C11", Gen: c11Gen, New: func() any { return &e4Scenario{} }, Exec: c11Exec, Simplify: e4Simplify}
}
