package runner

// E1 — runner engine: the real runner.Run over synthetic targets under the simulated
// scheduler. Decides C04 (at most once, after dependencies, actual outcomes), C05
// (termination, cycles reported) and C09 (parallelism limit, slot conservation).

import (
	"fmt"
	"math/rand/v2"
	"os"
	"reflect"
	"sort"
	"testing"

	"verif.local/sim/simcheck"
	"verif.local/sim/simrt"
)

type e1Scenario struct {
	N          int     `json:"n"`    // labels t0..t(n-1); t0 is the root
	Deps       [][]int `json:"deps"` // per label
	LoadErr    []bool  `json:"load_err"`
	EvalErr    []bool  `json:"eval_err"`
	Yields     []int   `json:"yields"`
	LoadYield  []bool  `json:"load_yield"`
	TwoBatches []bool  `json:"two_batches"`
	Limit      int     `json:"limit"`
	Strategy   int     `json:"strategy"`
	Sticky     int     `json:"sticky"`
	PCTDepth   int     `json:"pct_depth"`
	CondAny    bool    `json:"cond_signal_any"`
	UnlockY    bool    `json:"unlock_yields,omitempty"`
	// Prelude: the simulated process has run a build before (the REPL, watch mode): one that
	// failed on a dependency cycle and left a slow target running, which finishes some time
	// during the build under check. Nothing of that earlier build may count in this one.
	Prelude int `json:"earlier_failed_build_leftover_yields,omitempty"`
	Shape      string  `json:"shape"`
}

type e1Err struct{ msg string }

func (e *e1Err) Error() string { return e.msg }

type e1World struct {
	sc   *e1Scenario
	sim  *simrt.Sim
	prop string

	loads, evals []int
	finished     []bool
	outcome      []error
	loadedObj    []Target
	executing    int
	maxExecuting int
	gate         reflect.Value // the gate struct (addressable), if found
	gateMissing  bool
	cycHanded    bool
	violation    *simcheck.Violation
	gateAtLimit  int
}

func label(i int) string { return fmt.Sprintf("t%d", i) }

// flag records the first violation of the property under check; oracles of the other
// properties served by this engine are ignored in this run.
func (w *e1World) flag(class, format string, a ...any) {
	is09 := class == "limit-exceeded" || class == "slots-not-conserved" || class == "executing-without-slot"
	if (w.prop == "C09") != is09 || w.prop == "C05" {
		return
	}
	if w.violation == nil {
		w.violation = simcheck.V(class, format, a...)
	}
}

func (w *e1World) LoadTarget(l string) (Target, error) {
	var i int
	fmt.Sscanf(l, "t%d", &i)
	w.executing++
	if w.executing > w.maxExecuting {
		w.maxExecuting = w.executing
	}
	defer func() { w.executing-- }()
	w.loads[i]++
	if w.sc.LoadYield[i] {
		w.sim.Yield("load", l)
	}
	if w.sc.LoadErr[i] {
		err := &e1Err{"unknown target " + l}
		w.outcome[i], w.finished[i] = err, true
		return nil, err
	}
	t := &e1Target{w: w, i: i}
	w.loadedObj[i] = t
	return t, nil
}

type e1Target struct {
	w *e1World
	i int
}

func (w *e1World) findGate(e Engine) {
	if w.gate.IsValid() || w.gateMissing {
		return
	}
	defer func() {
		if recover() != nil {
			w.gateMissing = true
		}
	}()
	v := reflect.ValueOf(e)
	for v.Kind() == reflect.Ptr || v.Kind() == reflect.Interface {
		v = v.Elem()
	}
	r := v.FieldByName("runner")
	for r.Kind() == reflect.Ptr {
		r = r.Elem()
	}
	g := r.FieldByName("gate")
	for g.Kind() == reflect.Ptr {
		g = g.Elem()
	}
	if c := g.FieldByName("capacity"); c.IsValid() && c.CanInt() {
		w.gate = g
		return
	}
	w.gateMissing = true
}

func (w *e1World) free() (int, bool) {
	if !w.gate.IsValid() {
		return 0, false
	}
	return int(w.gate.FieldByName("capacity").Int()), true
}

func (t *e1Target) Evaluate(engine Engine) (err error) {
	w, i := t.w, t.i
	w.findGate(engine)
	w.evals[i]++
	w.executing++
	if w.executing > w.maxExecuting {
		w.maxExecuting = w.executing
	}
	defer func() {
		w.outcome[i], w.finished[i] = err, true
		w.executing--
	}()

	deps := w.sc.Deps[i]
	batches := [][]int{deps}
	if w.sc.TwoBatches[i] && len(deps) >= 2 {
		h := len(deps) / 2
		batches = [][]int{deps[:h], deps[h:]}
	}
	var depErr error
	for _, b := range batches {
		if len(b) == 0 && len(deps) != 0 {
			continue
		}
		labels := make([]string, len(b))
		for k, d := range b {
			labels[k] = label(d)
		}
		w.executing--
		results := engine.EvaluateTargets(labels...)
		w.executing++
		if w.executing > w.maxExecuting {
			w.maxExecuting = w.executing
		}
		if len(results) != len(b) {
			w.flag("wrong-result-count", "%s asked for %d dependencies and was handed %d results", label(i), len(b), len(results))
			return &e1Err{"bad results"}
		}
		cyc := false
		for _, r := range results {
			if _, ok := r.Error.(CyclicDependencyError); ok {
				cyc = true
			}
		}
		if cyc {
			w.cycHanded = true
			// a cyclic-dependency error is the actual outcome of a request only if one of
			// the requested targets depends, directly or not, on the requester
			closes := false
			for _, d := range b {
				closes = closes || w.sc.reaches(d, i)
			}
			if !closes {
				w.flag("wrong-dep-outcome", "%s was handed a cyclic-dependency error for %v, none of which depends on %s", label(i), labels, label(i))
			}
			depErr = &e1Err{"cyclic dependency below " + label(i)}
			continue
		}
		for k, r := range results {
			d := b[k]
			if !w.finished[d] {
				w.flag("dep-not-finished", "%s continued past its dependency request before %s had finished", label(i), label(d))
			} else if r.Error != w.outcome[d] {
				w.flag("wrong-dep-outcome", "%s was handed outcome %v for %s whose actual outcome is %v", label(i), r.Error, label(d), w.outcome[d])
			}
			if w.sc.LoadErr[d] {
				if r.Target != nil {
					w.flag("wrong-dep-target", "%s was handed a target for %s which failed to load", label(i), label(d))
				}
			} else if w.finished[d] && r.Target != w.loadedObj[d] {
				w.flag("wrong-dep-target", "%s was handed %v as the target of %s, not the loaded one", label(i), r.Target, label(d))
			}
			if r.Error != nil && depErr == nil {
				depErr = &e1Err{fmt.Sprintf("dependency %s of %s failed", label(d), label(i))}
			}
		}
	}
	if depErr != nil {
		return depErr
	}
	for k := 0; k < w.sc.Yields[i]; k++ {
		w.sim.Yield("body", label(i))
	}
	if w.sc.EvalErr[i] {
		return &e1Err{"body of " + label(i) + " failed"}
	}
	return nil
}

// reach: labels reachable from the root through labels that load.
func (sc *e1Scenario) reach() []bool {
	seen := make([]bool, sc.N)
	var visit func(i int)
	visit = func(i int) {
		if seen[i] {
			return
		}
		seen[i] = true
		if sc.LoadErr[i] {
			return
		}
		for _, d := range sc.Deps[i] {
			visit(d)
		}
	}
	visit(0)
	return seen
}

// reaches: there is a dependency path (through labels that load) from `from` to `to`.
func (sc *e1Scenario) reaches(from, to int) bool {
	seen := make([]bool, sc.N)
	var visit func(i int) bool
	visit = func(i int) bool {
		if i == to {
			return true
		}
		if seen[i] || sc.LoadErr[i] {
			return false
		}
		seen[i] = true
		for _, d := range sc.Deps[i] {
			if visit(d) {
				return true
			}
		}
		return false
	}
	return visit(from)
}

func (sc *e1Scenario) cyclic(reach []bool) bool {
	color := make([]int, sc.N)
	var dfs func(i int) bool
	dfs = func(i int) bool {
		color[i] = 1
		if !sc.LoadErr[i] {
			for _, d := range sc.Deps[i] {
				if color[d] == 1 {
					return true
				}
				if color[d] == 0 && dfs(d) {
					return true
				}
			}
		}
		color[i] = 2
		return false
	}
	return dfs(0)
}

// e1Prelude is the earlier build of a long-lived process: p0 -> a -> [slow, a]. a finds the
// cycle through itself; the runner returns while slow is still running.
type e1Prelude struct {
	sim  *simrt.Sim
	slow int
}

type e1PreludeTarget struct {
	w *e1Prelude
	l string
}

func (w *e1Prelude) LoadTarget(l string) (Target, error) { return &e1PreludeTarget{w, l}, nil }

func (t *e1PreludeTarget) Evaluate(engine Engine) error {
	switch t.l {
	case "p0":
		for _, r := range engine.EvaluateTargets("a") {
			if r.Error != nil {
				return &e1Err{"dependency a of p0 failed"}
			}
		}
	case "a":
		for _, r := range engine.EvaluateTargets("slow", "a") {
			if r.Error != nil {
				return &e1Err{"dependency of a failed"}
			}
		}
	case "slow":
		for k := 0; k < t.w.slow; k++ {
			t.w.sim.Yield("body", "slow (earlier build)")
		}
	}
	return nil
}

func e1Exec(prop string) func(any, *simcheck.Ctx) *simcheck.Violation {
	return func(scAny any, c *simcheck.Ctx) *simcheck.Violation {
		sc := scAny.(*e1Scenario)
		if err := sc.validate(); err != nil {
			return nil // a simplification produced an ill-formed scenario: not a case
		}
		w := &e1World{sc: sc, prop: prop, loads: make([]int, sc.N), evals: make([]int, sc.N), finished: make([]bool, sc.N),
			outcome: make([]error, sc.N), loadedObj: make([]Target, sc.N)}
		cfg := simrt.Config{Sched: c.Tapes.Get("sched"), Misc: c.Tapes.Get("misc"), Strategy: sc.Strategy, StickyNum: sc.Sticky,
			PCTDepth: sc.PCTDepth, PCTEst: 40 + 30*sc.N, NumCPU: sc.Limit, CondSignalAny: sc.CondAny, UnlockYields: sc.UnlockY, MaxSteps: 100000}
		if c.Trace {
			cfg.TraceMax = 2000
		}
		s := simrt.New(cfg)
		w.sim = s
		L := sc.Limit
		s.Invariants = append(s.Invariants, func() string {
			if w.violation != nil {
				return "oracle"
			}
			for i := 0; i < sc.N; i++ {
				if w.loads[i] > 1 {
					w.flag("loaded-twice", "%s was loaded %d times in one build", label(i), w.loads[i])
					if w.violation != nil {
						if w.violation != nil {
							return "oracle"
						}
					}
				}
				if w.evals[i] > 1 {
					w.flag("evaluated-twice", "%s was evaluated %d times in one build", label(i), w.evals[i])
					if w.violation != nil {
						if w.violation != nil {
							return "oracle"
						}
					}
				}
			}
			if prop == "C09" {
				if w.executing > L {
					w.flag("limit-exceeded", "%d targets executing with a parallelism limit of %d", w.executing, L)
					if w.violation != nil {
						if w.violation != nil {
							return "oracle"
						}
					}
				}
				if free, ok := w.free(); ok {
					if free < 0 || free > L {
						w.flag("slots-not-conserved", "gate has %d free slots with a limit of %d", free, L)
						if w.violation != nil {
							if w.violation != nil {
								return "oracle"
							}
						}
					}
					if w.executing > L-free {
						w.flag("executing-without-slot", "%d targets executing but only %d slots are taken (limit %d)", w.executing, L-free, L)
						if w.violation != nil {
							if w.violation != nil {
								return "oracle"
							}
						}
					}
					if free == 0 {
						w.gateAtLimit++
					}
				}
			}
			return ""
		})
		var runErr error
		returned := false
		s.Run(func() {
			if sc.Prelude > 0 {
				Run(&e1Prelude{sim: s, slow: sc.Prelude}, "p0")
				c.St.Count("builds_after_an_earlier_failed_build_of_the_same_process", 1)
			}
			runErr = Run(w, label(0))
			returned = true
		})
		c.Sim(s, simcheck.ScenarioHash(sc), sc.Strategy)
		if s.Stuck {
			return simcheck.V(simcheck.EngineError, "watchdog: simulated process blocked outside the simulator")
		}
		if w.gateMissing {
			c.St.Count("gate_not_readable", 1)
		}
		if w.gateAtLimit > 0 {
			c.St.Probes["gate_full"]++
		}
		if sc.Limit == 1 && w.gateAtLimit > 0 {
			c.St.Probes["gate_contended_at_limit_1"]++
		}
		if w.cycHanded {
			c.St.Probes["cycle_error_handed"]++
		}
		reach := sc.reach()
		cyclic := sc.cyclic(reach)
		if cyclic {
			c.St.Probes["cyclic_graph"]++
		}

		// A Go panic or fatal misuse of a primitive inside the runner breaks every property.
		if f := s.Failure; f != nil && (f.Kind == simrt.FailPanic || f.Kind == simrt.FailFatal) {
			return simcheck.V("panic", "%s: %s", f.Kind, f.Msg)
		}
		if w.violation != nil {
			return w.violation
		}
		switch prop {
		case "C05":
			if f := s.Failure; f != nil {
				switch f.Kind {
				case simrt.FailDeadlock:
					return simcheck.V("deadlock", "build did not terminate: %s [%s]", f.Msg, f.Gs)
				case simrt.FailBudget:
					return simcheck.V("no-termination", "%s", f.Msg)
				}
			}
			if !returned {
				return simcheck.V(simcheck.EngineError, "Run did not return and no failure recorded")
			}
			_, runCyc := runErr.(CyclicDependencyError)
			if cyclic {
				if runErr == nil {
					return simcheck.V("cycle-build-succeeded", "reachable targets contain a dependency cycle but the build succeeded")
				}
				if !w.cycHanded && !runCyc {
					return simcheck.V("cycle-not-reported", "reachable targets contain a dependency cycle but no cyclic-dependency error was reported (build error: %v)", runErr)
				}
			} else {
				if w.cycHanded || runCyc {
					return simcheck.V("false-cycle", "acyclic graph but a cyclic-dependency error was reported")
				}
			}
		case "C04":
			if f := s.Failure; f != nil && !cyclic && (f.Kind == simrt.FailDeadlock || f.Kind == simrt.FailBudget) {
				// in an acyclic graph every dependency finishes, so a dependent that is never
				// handed its outcomes (and a build that never returns the root's result) is a
				// C04 failure as much as a termination failure
				return simcheck.V("outcome-never-delivered", "acyclic graph: the build never returned the requested target's result: %s [%s]", f.Msg, f.Gs)
			}
			if s.Failure != nil || !returned {
				return nil // termination with cycles is C05's business
			}
			if runErr != w.outcome[0] {
				return simcheck.V("wrong-run-result", "Run returned %v but the requested target's outcome is %v", runErr, w.outcome[0])
			}
		case "C09":
			if f := s.Failure; f != nil && !cyclic && (f.Kind == simrt.FailDeadlock || f.Kind == simrt.FailBudget) {
				return simcheck.V("limit-deadlock", "acyclic graph does not complete with parallelism limit %d: %s [%s]", L, f.Msg, f.Gs)
			}
			if s.Failure == nil {
				if free, ok := w.free(); ok && free != L {
					return simcheck.V("slots-leaked", "after the build %d of %d slots are free", free, L)
				}
			}
		}
		return nil
	}
}

func (sc *e1Scenario) validate() error {
	if sc.N < 1 || len(sc.Deps) != sc.N || len(sc.LoadErr) != sc.N || len(sc.EvalErr) != sc.N || len(sc.Yields) != sc.N ||
		len(sc.LoadYield) != sc.N || len(sc.TwoBatches) != sc.N || sc.Limit < 1 {
		return fmt.Errorf("ill-formed")
	}
	for _, ds := range sc.Deps {
		for _, d := range ds {
			if d < 0 || d >= sc.N {
				return fmt.Errorf("ill-formed")
			}
		}
	}
	return nil
}

var e1Shapes = []string{"chain", "tree", "diamond", "dag", "dag+back", "selfloop", "two-cycles", "cycle-off-root", "cycle-behind-failure", "wide"}
var e1Limits = []int{1, 1, 2, 2, 3, 4, 8, 16}

func e1Gen(r *rand.Rand, tier string) any {
	maxN := 8
	if tier == "thorough" {
		maxN = 12
	}
	n := 1 + r.IntN(maxN)
	sc := &e1Scenario{N: n, Deps: make([][]int, n), LoadErr: make([]bool, n), EvalErr: make([]bool, n), Yields: make([]int, n),
		LoadYield: make([]bool, n), TwoBatches: make([]bool, n)}
	sc.Shape = e1Shapes[r.IntN(len(e1Shapes))]
	add := func(a, b int) {
		for _, d := range sc.Deps[a] {
			if d == b {
				return
			}
		}
		sc.Deps[a] = append(sc.Deps[a], b)
	}
	dag := func(p int) {
		for i := 0; i < n; i++ {
			for j := i + 1; j < n; j++ {
				if r.IntN(100) < p {
					add(i, j)
				}
			}
		}
	}
	switch sc.Shape {
	case "chain":
		for i := 0; i+1 < n; i++ {
			add(i, i+1)
		}
	case "tree":
		for i := 1; i < n; i++ {
			add(r.IntN(i), i)
		}
	case "diamond":
		for i := 1; i < n-1; i++ {
			add(0, i)
			add(i, n-1)
		}
		if n == 2 {
			add(0, 1)
		}
	case "wide":
		for i := 1; i < n; i++ {
			add(0, i)
		}
	case "dag":
		dag(40)
	case "dag+back":
		dag(40)
		for k := 0; k < 1+r.IntN(2); k++ {
			a, b := r.IntN(n), r.IntN(n)
			if a < b {
				a, b = b, a
			}
			add(a, b)
		}
	case "selfloop":
		dag(30)
		k := r.IntN(n)
		add(k, k)
	case "two-cycles":
		dag(30)
		for k := 0; k < 2; k++ {
			a, b := r.IntN(n), r.IntN(n)
			add(a, b)
			add(b, a)
		}
	case "cycle-off-root":
		for i := 1; i < n; i++ {
			add(0, i)
		}
		if n >= 3 {
			a := 1 + r.IntN(n-1)
			b := 1 + r.IntN(n-1)
			add(a, b)
			add(b, a)
		}
	case "cycle-behind-failure":
		dag(40)
		if n >= 3 {
			a := 1 + r.IntN(n-1)
			b := 1 + r.IntN(n-1)
			add(a, b)
			add(b, a)
			k := r.IntN(n)
			if r.IntN(2) == 0 {
				sc.LoadErr[k] = true
			} else {
				sc.EvalErr[k] = true
			}
		}
	}
	for i := 0; i < n; i++ {
		// shuffle dependency order
		r.Shuffle(len(sc.Deps[i]), func(a, b int) { sc.Deps[i][a], sc.Deps[i][b] = sc.Deps[i][b], sc.Deps[i][a] })
		if r.IntN(100) < 8 {
			sc.LoadErr[i] = true
		}
		if r.IntN(100) < 10 {
			sc.EvalErr[i] = true
		}
		sc.Yields[i] = r.IntN(4)
		sc.LoadYield[i] = r.IntN(3) == 0
		sc.TwoBatches[i] = r.IntN(5) == 0
	}
	sc.Limit = e1Limits[r.IntN(len(e1Limits))]
	sc.Strategy = []int{simrt.StratUniform, simrt.StratUniform, simrt.StratSticky, simrt.StratPCT, simrt.StratPCT, simrt.StratRoundRobin}[r.IntN(6)]
	sc.Sticky = []int{50, 90, 99}[r.IntN(3)]
	sc.PCTDepth = 1 + r.IntN(3)
	sc.CondAny = r.IntN(3) == 0
	sc.UnlockY = r.IntN(3) == 0
	if r.IntN(6) == 0 {
		sc.Prelude = 1 + r.IntN(40)
	}
	return sc
}

func e1Simplify(scAny any) []any {
	sc := scAny.(*e1Scenario)
	var out []any
	clone := func() *e1Scenario {
		c := *sc
		c.Deps = make([][]int, sc.N)
		for i := range sc.Deps {
			c.Deps[i] = append([]int{}, sc.Deps[i]...)
		}
		c.LoadErr = append([]bool{}, sc.LoadErr...)
		c.EvalErr = append([]bool{}, sc.EvalErr...)
		c.Yields = append([]int{}, sc.Yields...)
		c.LoadYield = append([]bool{}, sc.LoadYield...)
		c.TwoBatches = append([]bool{}, sc.TwoBatches...)
		return &c
	}
	// drop the last label
	if sc.N > 1 {
		c := clone()
		n := sc.N - 1
		c.N = n
		c.Deps = c.Deps[:n]
		for i := range c.Deps {
			var ds []int
			for _, d := range c.Deps[i] {
				if d < n {
					ds = append(ds, d)
				}
			}
			c.Deps[i] = ds
		}
		c.LoadErr, c.EvalErr, c.Yields, c.LoadYield, c.TwoBatches = c.LoadErr[:n], c.EvalErr[:n], c.Yields[:n], c.LoadYield[:n], c.TwoBatches[:n]
		out = append(out, c)
	}
	// drop one edge
	for i := range sc.Deps {
		for k := range sc.Deps[i] {
			c := clone()
			c.Deps[i] = append(append([]int{}, sc.Deps[i][:k]...), sc.Deps[i][k+1:]...)
			out = append(out, c)
		}
	}
	for i := 0; i < sc.N; i++ {
		if sc.LoadErr[i] {
			c := clone()
			c.LoadErr[i] = false
			out = append(out, c)
		}
		if sc.EvalErr[i] {
			c := clone()
			c.EvalErr[i] = false
			out = append(out, c)
		}
		if sc.Yields[i] > 0 {
			c := clone()
			c.Yields[i] = 0
			out = append(out, c)
		}
		if sc.LoadYield[i] {
			c := clone()
			c.LoadYield[i] = false
			out = append(out, c)
		}
		if sc.TwoBatches[i] {
			c := clone()
			c.TwoBatches[i] = false
			out = append(out, c)
		}
	}
	if sc.CondAny {
		c := clone()
		c.CondAny = false
		out = append(out, c)
	}
	return out
}

// e1Fixed: small hand-picked graphs that every run covers (incl. every limit for C09).
func e1Fixed(tier string) []any {
	var out []any
	mk := func(n int, edges [][2]int, limit int) *e1Scenario {
		sc := &e1Scenario{N: n, Deps: make([][]int, n), LoadErr: make([]bool, n), EvalErr: make([]bool, n), Yields: make([]int, n),
			LoadYield: make([]bool, n), TwoBatches: make([]bool, n), Limit: limit, Strategy: simrt.StratUniform, Shape: "fixed"}
		for _, e := range edges {
			sc.Deps[e[0]] = append(sc.Deps[e[0]], e[1])
		}
		for i := range sc.Yields {
			sc.Yields[i] = 1
		}
		return sc
	}
	graphs := []struct {
		n int
		e [][2]int
	}{
		{1, nil},
		{1, [][2]int{{0, 0}}},
		{2, [][2]int{{0, 1}, {1, 0}}},
		{3, [][2]int{{0, 1}, {1, 2}, {2, 1}}},
		{3, [][2]int{{0, 1}, {1, 2}, {2, 0}}},
		{4, [][2]int{{0, 1}, {0, 2}, {1, 3}, {2, 3}}},
		{4, [][2]int{{0, 1}, {0, 2}, {1, 3}, {2, 3}, {3, 1}}},
		{5, [][2]int{{0, 1}, {0, 2}, {0, 3}, {0, 4}}},
		{4, [][2]int{{0, 1}, {1, 2}, {2, 3}}},
	}
	for _, g := range graphs {
		for _, l := range []int{1, 2, 4} {
			for rep := 0; rep < 4; rep++ {
				sc := mk(g.n, g.e, l)
				sc.Strategy = rep % 4
				sc.Sticky = 90
				sc.PCTDepth = 2
				out = append(out, sc)
			}
		}
	}
	return out
}

var e1Props = map[string]*simcheck.Prop{}

func init() {
	for _, id := range []string{"C04", "C05", "C09"} {
		e1Props[id] = &simcheck.Prop{ID: id, Gen: e1Gen, New: func() any { return &e1Scenario{} }, Exec: e1Exec(id), Simplify: e1Simplify, Fixed: e1Fixed}
	}
	_ = sort.Ints
}

func TestVerifWorker(t *testing.T) {
	if os.Getenv("VERIF_PROP") == "" {
		t.Skip("not a verification run")
	}
	os.Exit(simcheck.Main(e1Props))
}
