package dawn

import (
	"os"
	"testing"

	"verif.local/sim/simcheck"
)

var e2Props = map[string]*simcheck.Prop{
	"C01": {ID: "C01", Gen: c01Gen, New: newHistScenario, Exec: c01Exec, Simplify: histSimplify},
	"C02": {ID: "C02", Gen: c02Gen, New: newHistScenario, Exec: c02Exec, Simplify: histSimplify},
	"C08": {ID: "C08", Gen: c08Gen, New: newHistScenario, Exec: c08Exec, Simplify: histSimplify},
	"C03": {ID: "C03", Gen: c03Gen, New: newHistScenario, Exec: c03Exec, Simplify: histSimplify},
	"C20": {ID: "C20", Gen: e3Gen, New: func() any { return &e3Scenario{} }, Exec: e3Exec, Simplify: e3Simplify},
	"C13": {ID: "C13", Gen: c13Gen, New: newHistScenario, Exec: c13Exec, Simplify: histSimplify},
	"C14": {ID: "C14", Gen: c14Gen, New: newHistScenario, Exec: c14Exec, Simplify: histSimplify},
	"C18": {ID: "C18", Gen: c18Gen, New: newHistScenario, Exec: c18Exec, Simplify: histSimplify},
	"C15": {ID: "C15", Gen: c15Gen, New: newHistScenario, Exec: c15Exec, Simplify: histSimplify},
	"C06": {ID: "C06", Gen: c06Gen, New: newHistScenario, Exec: c06Exec, Simplify: loadSimplify},
}

func TestVerifWorker(t *testing.T) {
	if os.Getenv("VERIF_PROP") == "" {
		t.Skip("not a verification run")
	}
	os.Exit(simcheck.Main(e2Props))
}
