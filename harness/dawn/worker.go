package dawn

import (
	"os"
	"testing"

	"verif.local/sim/simcheck"
)

var e2Props = map[string]*simcheck.Prop{
	"C01": {ID: "C01", Gen: c01Gen, New: newHistScenario, Exec: c01Exec, Simplify: histSimplify},
	"C02": {ID: "C02", Gen: c02Gen, New: newHistScenario, Exec: c02Exec, Simplify: histSimplify},
}

func TestVerifWorker(t *testing.T) {
	if os.Getenv("VERIF_PROP") == "" {
		t.Skip("not a verification run")
	}
	os.Exit(simcheck.Main(e2Props))
}
