package dawn

// C06 — module loading is once-only, terminating and cycle-safe.

import (
	"fmt"
	"math/rand/v2"
	"path/filepath"
	"sort"
	"strings"

	"verif.local/sim/simcheck"
)

func buildLabel(pkg string) string {
	if pkg == "//" {
		return "//:BUILD.dawn"
	}
	return pkg + ":BUILD.dawn"
}

// c06Gen: 1-5 packages x 0-6 helper modules with arbitrary load graphs.
func c06Gen(r *rand.Rand, tier string) any {
	p := &projSpec{Files: map[string]string{}}
	pkgs := []string{"//"}
	for _, cand := range []string{"//a", "//a/b", "//c", "//d"} {
		if r.IntN(100) < 50 {
			pkgs = append(pkgs, cand)
		}
	}
	shape := []string{"acyclic", "acyclic", "acyclic", "self", "two-cycle", "n-cycle", "random", "build-cycle"}[r.IntN(8)]
	nm := r.IntN(7)
	for i := 0; i < nm; i++ {
		m := moduleSpec{Pkg: pkgs[r.IntN(len(pkgs))], File: fmt.Sprintf("lib%d.dawn", i), Yields: r.IntN(4)}
		m.Consts = append(m.Consts, globalSpec{Name: fmt.Sprintf("LIB%d_K0", i), Val: genValue(r, literalKinds)})
		if r.IntN(2) == 0 {
			m.Funcs = append(m.Funcs, helperSpec{Name: fmt.Sprintf("lib%d_f0", i), Lit: genValue(r, literalKinds)})
		}
		m.Fails = r.IntN(10) == 0
		m.FailHow = r.IntN(3)
		p.Modules = append(p.Modules, m)
	}
	addLoad := func(a, b int) {
		for _, x := range p.Modules[a].Loads {
			if x == b {
				return
			}
		}
		p.Modules[a].Loads = append(p.Modules[a].Loads, b)
	}
	for i := 0; i < nm; i++ {
		for j := i + 1; j < nm; j++ {
			if r.IntN(100) < 40 {
				addLoad(i, j)
			}
		}
	}
	switch shape {
	case "self":
		if nm > 0 {
			k := r.IntN(nm)
			addLoad(k, k)
		}
	case "two-cycle":
		if nm > 1 {
			a := r.IntN(nm)
			b := (a + 1 + r.IntN(nm-1)) % nm
			addLoad(a, b)
			addLoad(b, a)
		}
	case "n-cycle":
		if nm > 2 {
			perm := r.Perm(nm)
			k := 3 + r.IntN(nm-2)
			for x := 0; x < k; x++ {
				addLoad(perm[x], perm[(x+1)%k])
			}
		}
	case "random":
		for x := 0; x < r.IntN(3); x++ {
			if nm > 0 {
				addLoad(r.IntN(nm), r.IntN(nm))
			}
		}
	}
	if r.IntN(100) < 35 {
		// required projects: their modules are fetched into the module cache and loaded from
		// there, by several loaders at once
		genExts(r, p, true)
		for i := 0; i < nm; i++ {
			for e := range p.Exts {
				if p.Exts[e].Sel >= 0 && r.IntN(100) < 30 {
					p.Modules[i].LoadExt = append(p.Modules[i].LoadExt, e)
				}
			}
		}
		if r.IntN(12) == 0 {
			p.Exts[r.IntN(len(p.Exts))].Fails = true
		}
		for e := range p.Exts {
			p.Exts[e].Flag = r.IntN(3) == 0
		}
	}
	for _, pk := range pkgs {
		ps := pkgSpec{Path: pk, Yields: r.IntN(3)}
		for e := range p.Exts {
			if p.Exts[e].Sel >= 0 && r.IntN(100) < 50 {
				ps.LoadsExt = append(ps.LoadsExt, e)
			}
			if p.Exts[e].Sel >= 0 && p.Exts[e].Util && r.IntN(100) < 50 {
				// another module of the same required project, loaded directly
				ps.LoadsUtl = append(ps.LoadsUtl, e)
			}
		}
		ps.Globals = append(ps.Globals, globalSpec{Name: "G0", Val: genValue(r, literalKinds)})
		for mi := 0; mi < nm; mi++ {
			if r.IntN(100) < 45 {
				ps.LoadsMod = append(ps.LoadsMod, mi)
			}
		}
		if shape == "build-cycle" || r.IntN(6) == 0 {
			for _, other := range pkgs {
				if other != pk && r.IntN(100) < 40 {
					ps.LoadsBld = append(ps.LoadsBld, buildLabel(other))
				}
			}
		}
		if r.IntN(4) == 0 {
			ps.Flag, ps.FlagDef = "opt", "d"
		}
		p.Packages = append(p.Packages, ps)
	}
	// 0-2 simple targets per package
	n := 0
	for _, pk := range pkgs {
		for k := 0; k < r.IntN(3); k++ {
			t := targetSpec{Pkg: pk, Name: fmt.Sprintf("t%d", n), Form: "decorator"}
			n++
			if r.IntN(2) == 0 && nm > 0 {
				mi := r.IntN(nm)
				t.Refs = append(t.Refs, refSpec{Kind: "libconst", Mod: mi, Name: p.Modules[mi].Consts[0].Name})
			}
			if k == 0 && r.IntN(2) == 0 {
				t.Default = true
			}
			if r.IntN(3) == 0 {
				t.Generates = []string{t.Name + ".out"}
			}
			p.Targets = append(p.Targets, t)
		}
	}
	// a generated file used as a source (a source label with a dependency shows up in Targets())
	for i := range p.Targets {
		if len(p.Targets[i].Generates) > 0 && r.IntN(2) == 0 {
			for j := range p.Targets {
				if j != i && p.Targets[j].Pkg == p.Targets[i].Pkg {
					p.Targets[j].Sources = append(p.Targets[j].Sources, p.Targets[i].Generates[0])
					break
				}
			}
		}
	}
	if r.IntN(5) == 0 {
		// a directory link back into the project's own tree, below one of the packages:
		// package discovery does not follow links
		pk := pkgs[r.IntN(len(pkgs))]
		p.Files[filepath.Join(pkgDir(pk), "self")] = linkMark + "."
	}
	return &histScenario{Spec: p, Proc: genProc(r), Mode: shape}
}

// loadGraph returns the model's load graph: node names and edges, roots = BUILD files.
func (p *projSpec) loadGraph() (map[string][]string, []string) {
	g := map[string][]string{}
	var roots []string
	for i := range p.Packages {
		pk := &p.Packages[i]
		n := buildLabel(pk.Path)
		roots = append(roots, n)
		seen := map[int]bool{}
		for ti := range p.Targets {
			if p.Targets[ti].Pkg == pk.Path {
				for _, rf := range p.Targets[ti].Refs {
					if rf.Kind == "libconst" || rf.Kind == "libfunc" {
						seen[rf.Mod] = true
					}
					if (rf.Kind == "extconst" || rf.Kind == "extfunc") && rf.Mod < len(p.Exts) {
						g[n] = append(g[n], extLabel(rf.Mod))
					}
				}
			}
		}
		for _, mi := range pk.LoadsMod {
			seen[mi] = true
		}
		for _, e := range pk.LoadsExt {
			if e < len(p.Exts) {
				g[n] = append(g[n], extLabel(e))
			}
		}
		for _, e := range pk.LoadsUtl {
			if e < len(p.Exts) && p.Exts[e].Util {
				g[n] = append(g[n], extPath(e)+"//:util.dawn")
			}
		}
		for mi := range seen {
			g[n] = append(g[n], p.Modules[mi].label())
		}
		g[n] = append(g[n], pk.LoadsBld...)
		sort.Strings(g[n])
	}
	for i := range p.Modules {
		m := &p.Modules[i]
		for _, j := range m.Loads {
			o := &p.Modules[j]
			if len(o.Consts)+len(o.Funcs) > 0 {
				g[m.label()] = append(g[m.label()], o.label())
			}
		}
		for _, e := range m.LoadExt {
			if e < len(p.Exts) {
				g[m.label()] = append(g[m.label()], extLabel(e))
			}
		}
	}
	p.extGraph(g)
	return g, roots
}

func graphCyclic(g map[string][]string, roots []string) (bool, map[string]bool) {
	color := map[string]int{}
	cyc := false
	var dfs func(n string)
	dfs = func(n string) {
		color[n] = 1
		for _, m := range g[n] {
			if color[m] == 1 {
				cyc = true
			} else if color[m] == 0 {
				dfs(m)
			}
		}
		color[n] = 2
	}
	for _, r := range roots {
		if color[r] == 0 {
			dfs(r)
		}
	}
	reach := map[string]bool{}
	for n := range color {
		reach[n] = true
	}
	return cyc, reach
}

func c06Exec(scAny any, c *simcheck.Ctx) *simcheck.Violation {
	sc := scAny.(*histScenario)
	if sc.Spec == nil || len(sc.Spec.Packages) == 0 {
		return nil
	}
	h, err := newHistRun(c, sc)
	if err != nil {
		return simcheck.V(simcheck.EngineError, "setup: %v", err)
	}
	defer h.cleanup()
	g, roots := h.p.loadGraph()
	cyclic, reach := graphCyclic(g, roots)
	if cyclic {
		c.St.Probes["cyclic_load_graph"]++
	}
	broken := false
	for i := range h.p.Modules {
		if h.p.Modules[i].Fails && reach[h.p.Modules[i].label()] {
			broken = true
		}
	}
	for i := range h.p.Exts {
		if h.p.Exts[i].Fails && reach[extLabel(i)] {
			broken = true
		}
		if reach[extLabel(i)] {
			c.St.Probes["module_of_a_required_project_loaded"]++
		}
	}
	if broken {
		c.St.Probes["load_graph_with_failing_module"]++
	}
	// two loads of the same tree under different tapes must agree
	var first []string
	for round := 0; round < 2; round++ {
		res := h.build(round, &opSpec{Op: "load-only"}, h.pc, nil)
		if v := procFailure(res); v != nil {
			return v
		}
		loading := map[string]int{}
		inFlight := 0
		for _, e := range h.w.events {
			switch e.Kind {
			case "ModuleLoading":
				loading[e.Label]++
				if inFlight > 0 {
					c.St.Probes["module_started_while_another_was_mid_load"]++
				}
				inFlight++
			case "ModuleLoaded", "ModuleLoadFailed":
				inFlight--
			}
		}
		h.w.events = nil
		for l, n := range loading {
			if n > 1 {
				return simcheck.V("module-loaded-twice", "module %s was executed %d times in one load", l, n)
			}
		}
		for n := range reach {
			if !cyclic && !broken && loading["module:"+n] != 1 && loading[n] != 1 {
				// label rendering of module labels: accept either form
				found := false
				for l := range loading {
					if strings.HasSuffix(l, strings.TrimPrefix(n, "//")) {
						found = true
					}
				}
				if !found {
					return simcheck.V("module-not-loaded", "module %s is reachable from a package but was not loaded (loaded: %v)", n, loading)
				}
			}
		}
		if broken {
			// a module that fails while others wait for it: the load must end with an error
			if res.LoadErr == nil {
				return simcheck.V("failing-module-loaded", "a reachable module fails while loading but the project loaded successfully")
			}
			continue
		}
		if cyclic {
			if res.LoadErr == nil {
				return simcheck.V("cycle-loaded", "the load graph has a cycle but loading succeeded")
			}
			if !strings.Contains(res.LoadErr.Error(), "cyclic dependency") {
				return simcheck.V("cycle-error-not-reported", "the load graph has a cycle but the load error does not say so: %v", res.LoadErr)
			}
			continue
		}
		if res.LoadErr != nil {
			return simcheck.V("acyclic-load-failed", "acyclic load graph failed to load: %v", res.LoadErr)
		}
		var got []string
		for _, t := range res.Proj.Targets() {
			got = append(got, t.Label().String())
		}
		for _, f := range res.Proj.Flags() {
			got = append(got, "flag:"+f.Name)
		}
		sort.Strings(got)
		want := h.p.expectedTargets()
		if strings.Join(got, " ") != strings.Join(want, " ") {
			return simcheck.V("wrong-targets", "loaded targets/flags %v differ from the project's %v", got, want)
		}
		if round == 0 {
			first = got
		} else if strings.Join(first, " ") != strings.Join(got, " ") {
			return simcheck.V("load-not-deterministic", "two loads of the same tree gave %v and %v", first, got)
		}
	}
	// a flaky disk while loading: the load may fail, it must still end (a loader that gives up
	// on a module must release whoever waits for that module)
	if c.Tapes.Get("flaky").Intn(3) == 0 {
		pc := h.pc
		pc.IOErrPM = []int{15, 40, 120}[c.Tapes.Get("flaky").Intn(3)]
		h.w.events = nil
		res := h.build(5, &opSpec{Op: "load-only"}, pc, nil)
		if v := procFailure(res); v != nil {
			if v.Class != simcheck.EngineError {
				v.Msg = fmt.Sprintf("loading with file operations failing at %d per mille: %s", pc.IOErrPM, v.Msg)
			}
			return v
		}
		c.St.Count("loads_on_a_flaky_disk", 1)
		if res.LoadErr != nil {
			c.St.Count("loads_failed_on_a_flaky_disk", 1)
		}
		loading := map[string]int{}
		for _, e := range h.w.events {
			if e.Kind == "ModuleLoading" {
				loading[e.Label]++
			}
		}
		for l, n := range loading {
			if n > 1 {
				return simcheck.V("module-loaded-twice", "module %s was executed %d times in one load (on a flaky disk)", l, n)
			}
		}
		h.w.events = nil
		h.lastProj = nil
		// and a fresh load afterwards behaves as before
		res = h.build(6, &opSpec{Op: "load-only"}, h.pc, nil)
		if v := procFailure(res); v != nil {
			return v
		}
		if !cyclic && !broken && res.LoadErr != nil {
			return simcheck.V("acyclic-load-failed", "after a load on a flaky disk, a fault-free load of the acyclic graph fails: %v", res.LoadErr)
		}
	}
	// an unreliable network while the required projects are fetched (cold cache): one
	// repository operation - a dial, a listing, a revision lookup, the checkout of one file -
	// fails. The load may fail; it must end, leave nobody waiting, and the next load, with
	// the network back, behaves as before (nothing half-fetched may have entered the cache).
	if nt := c.Tapes.Get("network"); len(h.p.Exts) > 0 && nt.Intn(2) == 0 {
		h.w.wipeCache()
		failAt := 1 + nt.Intn(14)
		h.w.events = nil
		res := h.build(7, &opSpec{Op: "load-only", NetFailAt: failAt}, h.pc, nil)
		faults := h.w.netFaults
		if v := procFailure(res); v != nil {
			if v.Class != simcheck.EngineError {
				v.Msg = fmt.Sprintf("loading while repository operation %d fails: %s", failAt, v.Msg)
			}
			return v
		}
		c.St.Count("loads_on_an_unreliable_network", 1)
		if faults == 0 {
			c.St.Count("loads_on_an_unreliable_network_without_a_fault", 1)
			if !cyclic && !broken && res.LoadErr != nil {
				return simcheck.V("acyclic-load-failed", "a load on a cold module cache failed although no fault was injected: %v", res.LoadErr)
			}
		} else if res.LoadErr != nil {
			c.St.Count("loads_failed_on_an_unreliable_network", 1)
		}
		loading := map[string]int{}
		for _, e := range h.w.events {
			if e.Kind == "ModuleLoading" {
				loading[e.Label]++
			}
		}
		for l, n := range loading {
			if n > 1 {
				return simcheck.V("module-loaded-twice", "module %s was executed %d times in one load (on an unreliable network)", l, n)
			}
		}
		h.w.events = nil
		h.lastProj = nil
		res = h.build(8, &opSpec{Op: "load-only"}, h.pc, nil)
		if v := procFailure(res); v != nil {
			return v
		}
		if !cyclic && !broken && res.LoadErr != nil {
			return simcheck.V("acyclic-load-failed", "after a load on an unreliable network, a load with the network back fails: %v", res.LoadErr)
		}
		if !cyclic && !broken {
			var got []string
			for _, t := range res.Proj.Targets() {
				got = append(got, t.Label().String())
			}
			for _, f := range res.Proj.Flags() {
				got = append(got, "flag:"+f.Name)
			}
			sort.Strings(got)
			if want := h.p.expectedTargets(); strings.Join(got, " ") != strings.Join(want, " ") {
				return simcheck.V("wrong-targets", "after a load on an unreliable network, the loaded targets/flags %v differ from the project's %v", got, want)
			}
		}
	}
	if cyclic || broken || h.lastProj == nil {
		return nil
	}
	// watch mode: dawn.toml moves a requirement to another version and the loaded project is
	// reloaded - the new version may put another project behind an alias, or require others
	if rt := c.Tapes.Get("reqreload"); len(h.p.Exts) > 0 && rt.Intn(2) == 0 {
		var direct []int
		for e := range h.p.Exts {
			if h.p.Exts[e].Sel >= 0 {
				direct = append(direct, e)
			}
		}
		if len(direct) > 0 {
			e := direct[rt.Intn(len(direct))]
			h.p.Exts[e].Sel = (h.p.Exts[e].Sel + 1 + rt.Intn(len(extVersions)-1)) % len(extVersions)
			var err error
			if h.prev, err = h.p.sync(h.w.root, h.prev); err != nil {
				return simcheck.V(simcheck.EngineError, "sync: %v", err)
			}
			g2, roots2 := h.p.loadGraph()
			cyclic2, reach2 := graphCyclic(g2, roots2)
			broken2 := false
			for i := range h.p.Exts {
				broken2 = broken2 || (h.p.Exts[i].Fails && reach2[extLabel(i)])
			}
			for i := range h.p.Modules {
				broken2 = broken2 || (h.p.Modules[i].Fails && reach2[h.p.Modules[i].label()])
			}
			what := fmt.Sprintf("reload after the requirement on %s moved to %s", extPath(e), extVersion(e, h.p.Exts[e].Sel))
			h.w.events = nil
			res := h.build(9, &opSpec{Op: "load-only", Reload: true}, h.pc, nil)
			if v := procFailure(res); v != nil {
				if v.Class != simcheck.EngineError {
					v.Msg = what + ": " + v.Msg
				}
				return v
			}
			c.St.Count("reloads_after_a_requirement_moved", 1)
			switch {
			case cyclic2:
				if res.LoadErr == nil || !strings.Contains(res.LoadErr.Error(), "cyclic dependency") {
					return simcheck.V("cycle-error-not-reported", "%s: the load graph now has a cycle but the reload ended with %v", what, res.LoadErr)
				}
				return nil
			case broken2:
				return nil
			case res.LoadErr != nil:
				return simcheck.V("acyclic-load-failed", "%s: the load graph is acyclic but the reload failed: %v", what, res.LoadErr)
			}
			var got []string
			for _, t := range res.Proj.Targets() {
				got = append(got, t.Label().String())
			}
			for _, f := range res.Proj.Flags() {
				got = append(got, "flag:"+f.Name)
			}
			sort.Strings(got)
			if want := h.p.expectedTargets(); strings.Join(got, " ") != strings.Join(want, " ") {
				return simcheck.V("wrong-targets", "%s: the reloaded project has %v, the tree declares %v", what, got, want)
			}
			reach = reach2
		}
	}
	if len(h.p.Modules) == 0 || h.lastProj == nil {
		return nil
	}
	return c06Reloads(h, c, reach)
}

// c06Reloads: watch mode. The loaded project is reloaded after an edit that breaks the load
// graph (a cycle, a failing module) - that reload must fail, and say so for a cycle - and
// again after the edit is undone: that reload must succeed and list the project's targets.
func c06Reloads(h *histRun, c *simcheck.Ctx, reach map[string]bool) *simcheck.Violation {
	t := c.Tapes.Get("reloads")
	if t.Intn(2) == 0 {
		return nil
	}
	var reachable []int
	for i := range h.p.Modules {
		if reach[h.p.Modules[i].label()] {
			reachable = append(reachable, i)
		}
	}
	if len(reachable) == 0 {
		return nil
	}
	h.keepFailedReload = true
	rounds := 1 + t.Intn(2)
	for k := 0; k < rounds; k++ {
		mi := reachable[t.Intn(len(reachable))]
		m := &h.p.Modules[mi]
		savedFails, savedHow := m.Fails, m.FailHow
		savedLoads := make([][]int, len(h.p.Modules))
		for i := range h.p.Modules {
			savedLoads[i] = append([]int{}, h.p.Modules[i].Loads...)
		}
		what := ""
		wantCycle := false
		switch t.Intn(3) {
		case 0:
			m.Fails, m.FailHow = true, t.Intn(3)
			what = fmt.Sprintf("module %s now fails while loading", m.label())
		case 1:
			m.Loads = append(m.Loads, mi)
			what, wantCycle = fmt.Sprintf("module %s now loads itself", m.label()), true
		default:
			// close a cycle through another module that this one reaches, if there is one
			if len(m.Loads) == 0 {
				m.Loads = append(m.Loads, mi)
				what, wantCycle = fmt.Sprintf("module %s now loads itself", m.label()), true
				break
			}
			o := &h.p.Modules[m.Loads[t.Intn(len(m.Loads))]]
			if len(o.Consts)+len(o.Funcs) == 0 || o == m {
				m.Loads = append(m.Loads, mi)
				what, wantCycle = fmt.Sprintf("module %s now loads itself", m.label()), true
				break
			}
			o.Loads = append(o.Loads, mi)
			what, wantCycle = fmt.Sprintf("modules %s and %s now load each other", m.label(), o.label()), true
		}
		var err error
		if h.prev, err = h.p.sync(h.w.root, h.prev); err != nil {
			return simcheck.V(simcheck.EngineError, "sync: %v", err)
		}
		h.w.events = nil
		res := h.build(10+2*k, &opSpec{Op: "load-only", Reload: true}, h.pc, nil)
		if v := procFailure(res); v != nil {
			if v.Class != simcheck.EngineError {
				v.Msg = fmt.Sprintf("reload after an edit (%s): %s", what, v.Msg)
			}
			return v
		}
		c.St.Count("reloads_of_a_broken_tree", 1)
		if res.LoadErr == nil {
			return simcheck.V("broken-reload-succeeded", "%s, but reloading the loaded project succeeded", what)
		}
		if wantCycle && !strings.Contains(res.LoadErr.Error(), "cyclic dependency") {
			return simcheck.V("cycle-error-not-reported", "%s, but the reload error does not say so: %v", what, res.LoadErr)
		}
		// undo the edit
		m.Fails, m.FailHow = savedFails, savedHow
		for i := range h.p.Modules {
			h.p.Modules[i].Loads = savedLoads[i]
		}
		if h.prev, err = h.p.sync(h.w.root, h.prev); err != nil {
			return simcheck.V(simcheck.EngineError, "sync: %v", err)
		}
		h.w.events = nil
		res = h.build(11+2*k, &opSpec{Op: "load-only", Reload: true}, h.pc, nil)
		if v := procFailure(res); v != nil {
			if v.Class != simcheck.EngineError {
				v.Msg = fmt.Sprintf("reload after the edit (%s) was undone: %s", what, v.Msg)
			}
			return v
		}
		if res.LoadErr != nil {
			return simcheck.V("repaired-reload-failed", "%s; the reload failed; the edit was undone, but reloading the same project still fails: %v", what, res.LoadErr)
		}
		var got []string
		for _, tg := range res.Proj.Targets() {
			got = append(got, tg.Label().String())
		}
		for _, f := range res.Proj.Flags() {
			got = append(got, "flag:"+f.Name)
		}
		sort.Strings(got)
		if want := h.p.expectedTargets(); strings.Join(got, " ") != strings.Join(want, " ") {
			return simcheck.V("wrong-targets", "after a failed and a repaired reload the project lists %v, not %v", got, want)
		}
		c.St.Count("repaired_reloads_checked", 1)
	}
	return nil
}

// expectedTargets: what Project.Targets() and Flags() must list.
func (p *projSpec) expectedTargets() []string {
	var out []string
	for i := range p.Targets {
		t := &p.Targets[i]
		out = append(out, t.label())
		if t.Default {
			if t.Pkg == "//" {
				out = append(out, "//:default")
			} else {
				out = append(out, t.Pkg+":default")
			}
		}
		for _, s := range t.Sources {
			rel := p.sourceRel(t, s)
			if p.generatorOf(rel) != nil {
				dir, name := "", rel
				if i := strings.LastIndexByte(rel, '/'); i >= 0 {
					dir, name = rel[:i], rel[i+1:]
				}
				out = append(out, "source://"+dir+":"+name)
			}
		}
	}
	for _, pk := range p.Packages {
		if pk.Flag != "" {
			name := pk.Flag
			if d := pkgDir(pk.Path); d != "" {
				name = strings.ReplaceAll(d, "/", ".") + "." + name
			}
			out = append(out, "flag:"+name)
		}
	}
	if len(p.Exts) > 0 {
		// flags declared by the modules of required projects that some package reaches
		g, roots := p.loadGraph()
		_, reach := graphCyclic(g, roots)
		for i := range p.Exts {
			if p.Exts[i].Flag && reach[extLabel(i)] {
				out = append(out, fmt.Sprintf("flag:extopt%d", i))
			}
		}
	}
	sort.Strings(out)
	// de-duplicate (a generated source used twice)
	var uniq []string
	for i, s := range out {
		if i == 0 || out[i-1] != s {
			uniq = append(uniq, s)
		}
	}
	return uniq
}

func loadSimplify(scAny any) []any {
	sc := scAny.(*histScenario)
	var out []any
	for i := len(sc.Spec.Targets) - 1; i >= 0; i-- {
		c := sc.clone()
		c.Spec.Targets = append(c.Spec.Targets[:i:i], c.Spec.Targets[i+1:]...)
		out = append(out, c)
	}
	for i := len(sc.Spec.Packages) - 1; i >= 1; i-- {
		c := sc.clone()
		path := c.Spec.Packages[i].Path
		c.Spec.Packages = append(c.Spec.Packages[:i:i], c.Spec.Packages[i+1:]...)
		var ts []targetSpec
		for _, t := range c.Spec.Targets {
			if t.Pkg != path {
				ts = append(ts, t)
			}
		}
		c.Spec.Targets = ts
		ok := true
		for _, m := range c.Spec.Modules {
			if m.Pkg == path {
				ok = false
			}
		}
		for pi := range c.Spec.Packages {
			var keep []string
			for _, l := range c.Spec.Packages[pi].LoadsBld {
				if l != buildLabel(path) {
					keep = append(keep, l)
				}
			}
			c.Spec.Packages[pi].LoadsBld = keep
		}
		if ok {
			out = append(out, c)
		}
	}
	for i := range sc.Spec.Packages {
		for k := range sc.Spec.Packages[i].LoadsMod {
			c := sc.clone()
			l := c.Spec.Packages[i].LoadsMod
			c.Spec.Packages[i].LoadsMod = append(l[:k:k], l[k+1:]...)
			out = append(out, c)
		}
		for k := range sc.Spec.Packages[i].LoadsBld {
			c := sc.clone()
			l := c.Spec.Packages[i].LoadsBld
			c.Spec.Packages[i].LoadsBld = append(l[:k:k], l[k+1:]...)
			out = append(out, c)
		}
		if sc.Spec.Packages[i].Yields > 0 || sc.Spec.Packages[i].Flag != "" {
			c := sc.clone()
			c.Spec.Packages[i].Yields, c.Spec.Packages[i].Flag = 0, ""
			out = append(out, c)
		}
	}
	for i := range sc.Spec.Modules {
		for k := range sc.Spec.Modules[i].Loads {
			c := sc.clone()
			l := c.Spec.Modules[i].Loads
			c.Spec.Modules[i].Loads = append(l[:k:k], l[k+1:]...)
			out = append(out, c)
		}
		if sc.Spec.Modules[i].Yields > 0 || len(sc.Spec.Modules[i].Funcs) > 0 {
			c := sc.clone()
			c.Spec.Modules[i].Yields, c.Spec.Modules[i].Funcs = 0, nil
			out = append(out, c)
		}
	}
	if sc.Proc.CondAny || sc.Proc.ReadDirPerm || sc.Proc.SplitWrites {
		c := sc.clone()
		c.Proc.CondAny, c.Proc.ReadDirPerm, c.Proc.SplitWrites = false, false, false
		out = append(out, c)
	}
	return out
}
