package dawn

// C08 — every target function can be fingerprinted, deterministically.

import (
	"fmt"
	"math/rand/v2"
	"os"
	"path/filepath"
	"strings"

	"verif.local/sim/simcheck"
)

var zooValueKinds = []string{"int", "int", "str", "bytes", "float", "bool", "list", "tuple", "dict", "set", "nested", "shared", "big", "strlen", "sizes", "sizes", "bigdict", "bigset", "tupslice", "tupslice", "idx1000", "idx1000", "floatspecial", "memo255", "numtype", "booltype", "strbytes", "strbytes", "cyclicdict", "cyclic"}

// c08Gen: a "function zoo" project plus an `all` target depending on everything.
func c08Gen(r *rand.Rand, tier string) any {
	o := genOpts{MaxTargets: 5, MaxMods: 3, Recursion: true, BigValues: true, Flags: true, GenSources: false, Exts: 20}
	if tier == "thorough" {
		o.MaxTargets = 8
		o.MaxMods = 4
	}
	p := genProject(r, o)
	// zoo globals
	for i := range p.Packages {
		pk := &p.Packages[i]
		for k := range pk.Globals {
			if r.IntN(2) == 0 {
				kind := zooValueKinds[r.IntN(len(zooValueKinds))]
				pk.Globals[k].Val = valueSpec{Kind: kind, V: r.IntN(40)}
			}
		}
	}
	// mutual recursion between helpers of one module, and across a loaded module
	for i := range p.Modules {
		m := &p.Modules[i]
		if len(m.Funcs) >= 2 && r.IntN(2) == 0 {
			m.Funcs[0].Mut, m.Funcs[1].Mut = m.Funcs[1].Name, m.Funcs[0].Name
		}
		if len(m.Funcs) >= 1 && r.IntN(4) == 0 {
			m.Funcs[0].Rec = true
		}
	}
	for i := range p.Targets {
		t := &p.Targets[i]
		pk := p.pkg(t.Pkg)
		if r.IntN(3) == 0 {
			t.Refs = append(t.Refs, refSpec{Kind: "deep", Name: pk.Globals[r.IntN(len(pk.Globals))].Name})
		}
		hasFree := false
		for _, rf := range t.Refs {
			if rf.Kind == "freevar" {
				hasFree = true
			}
		}
		if r.IntN(4) == 0 && t.Form == "decorator" && !hasFree {
			t.Refs = append(t.Refs, refSpec{Kind: "selfref"})
		}
		if r.IntN(5) == 0 && t.Form == "decorator" {
			t.Form = "varargs"
		}
		if r.IntN(4) == 0 {
			t.Refs = append(t.Refs, refSpec{Kind: "predecl", Name: []string{"os", "sh", "json", "host"}[r.IntN(4)]})
		}
		for k := range t.Refs {
			if (t.Refs[k].Kind == "default" || t.Refs[k].Kind == "freevar") && r.IntN(2) == 0 {
				kinds := zooValueKinds[:len(zooValueKinds)-2] // not the cyclic ones (they need statements)
				t.Refs[k].Val = valueSpec{Kind: kinds[r.IntN(len(kinds))], V: r.IntN(40)}
			}
		}
		if r.IntN(8) == 0 {
			t.Refs = append(t.Refs, refSpec{Kind: "dag", Name: []string{"", "tuple"}[r.IntN(2)], Val: valueSpec{Kind: "int", V: r.IntN(40)}})
		}
		if r.IntN(10) == 0 {
			t.Refs = append(t.Refs, refSpec{Kind: "manynested", Val: genValue(r, literalKinds)})
		}
		if r.IntN(6) == 0 && t.Form == "decorator" {
			// a mutable default value that the body itself changes: the values the function
			// references differ after every execution while the project stays loaded
			t.Refs = append(t.Refs, refSpec{Kind: "mutdefault"})
		}
		t.Always = false
	}
	// the root target
	all := targetSpec{Pkg: "//", Name: "all", Form: "decorator"}
	for i := range p.Targets {
		all.Deps = append(all.Deps, p.Targets[i].label())
		p.Targets[i].Default = false
	}
	p.Targets = append(p.Targets, all)
	sc := &histScenario{Spec: p, Proc: genProc(r)}
	sc.Proc.GCHammer = r.IntN(4) == 0
	// items to edit, one at a time
	items := p.semanticItems()
	r.Shuffle(len(items), func(i, j int) { items[i], items[j] = items[j], items[i] })
	n := 4
	if tier == "thorough" {
		n = 10
	}
	for k := 0; k < len(items) && k < n; k++ {
		sc.Ops = append(sc.Ops, opSpec{Op: "edit-item", Item: items[k], N: 1 + r.IntN(3)})
	}
	for e := range sc.Spec.Exts {
		// a requirement moves to another version: the helpers loaded from it change - also
		// those of the projects that load it (half of the moves go to the highest version, which
		// always changes what is selected unless it was selected already)
		if sc.Spec.Exts[e].Sel >= 0 {
			n := sc.Spec.Exts[e].Sel + 1 + r.IntN(len(extVersions)-1)
			if r.IntN(2) == 0 {
				n = len(extVersions) - 1
			}
			sc.Ops = append(sc.Ops, opSpec{Op: "bump-req", Item: fmt.Sprint(e), N: n})
		}
	}
	return sc
}

func atoiOr(s string) int {
	n := 0
	fmt.Sscan(s, &n)
	return n
}

func fingerprintError(err error) bool {
	if err == nil {
		return false
	}
	s := err.Error()
	for _, m := range []string{"computing function environment", "comparing function environments", "loading prior function environment", "diffing environments", "environment is not a dict", "cannot pickle", "NEWOBJ", "refreshing target info"} {
		if strings.Contains(s, m) {
			return true
		}
	}
	return false
}

func c08Exec(scAny any, c *simcheck.Ctx) *simcheck.Violation {
	v := c08ExecInner(scAny, c)
	if sc := scAny.(*histScenario); v != nil && sc.Proc.GCHammer && v.Class != simcheck.EngineError {
		v.NoMinimise = true
	}
	return v
}

func c08ExecInner(scAny any, c *simcheck.Ctx) *simcheck.Violation {
	sc := scAny.(*histScenario)
	if sc.Spec == nil || sc.Spec.target("//:all") == nil {
		return nil
	}
	h, err := newHistRun(c, sc)
	if err != nil {
		return simcheck.V(simcheck.EngineError, "setup: %v", err)
	}
	defer h.cleanup()
	if sc.Proc.GCHammer {
		defer startGCHammer()()
		c.St.Count("cases_under_constant_garbage_collection", 1)
	}
	step := 0
	reloadNext := false // the next build reloads the project of the previous one (watch mode)
	run := func(what string) (*procResult, *simcheck.Violation) {
		step++
		pc := h.pc
		pc.WatchdogS = 90 // (real time; generous, because the machine may be shared with other jobs)
		res := h.build(step, &opSpec{Op: "build", Label: "//:all", Reload: reloadNext}, pc, nil)
		reloadNext = false
		if res.Sim.Stuck {
			// a load and build of a handful of targets takes milliseconds; half a minute of
			// real time with the baton never coming back means a computation that does not end
			v := simcheck.V("fingerprint-hang", "%s: loading and building did not finish within 90 s of real time (fingerprinting or comparing environments does not terminate)", what)
			v.Fatal = true
			return res, v
		}
		if v := procFailure(res); v != nil {
			if v.Class == "panic" {
				return res, simcheck.V("fingerprint-crash", "%s: %s", what, v.Msg)
			}
			if v.Class == simcheck.EngineError {
				return res, v
			}
			c.St.Count("process_failure_"+v.Class, 1)
			return res, simcheck.V("skip", "")
		}
		for _, e := range []error{res.LoadErr, res.RunErr} {
			if e == nil {
				continue
			}
			// the build reports "dependency X failed"; the cause is in the events
			cause := e.Error()
			for _, ev := range h.w.events {
				if (ev.Kind == "TargetFailed" || ev.Kind == "ModuleLoadFailed") && ev.Err != nil && fingerprintError(ev.Err) {
					cause = ev.Label + ": " + ev.Err.Error()
				}
			}
			if fingerprintError(e) || cause != e.Error() {
				return res, simcheck.V("fingerprint-error", "%s: %s", what, cause)
			}
			if step == 1 {
				why := ""
				for _, ev := range h.w.events {
					if (ev.Kind == "TargetFailed" || ev.Kind == "ModuleLoadFailed") && ev.Err != nil {
						why += ev.Label + ": " + ev.Err.Error() + "; "
					}
				}
				return res, simcheck.V(simcheck.EngineError, "generated zoo project fails: %v (%s)", e, why)
			}
			c.St.Count("unexpected_error", 1)
			return res, simcheck.V("skip", "")
		}
		return res, nil
	}
	h.w.events = nil
	if _, v := run("first build"); v != nil {
		if v.Class == "skip" {
			return nil
		}
		return v
	}
	// (c) a fresh load under other tapes finds every fingerprint equal
	h.w.events = nil
	if _, v := run("rebuild of the unchanged tree"); v != nil {
		if v.Class == "skip" {
			return nil
		}
		return v
	}
	if st := h.startsIn(step); len(st) > 0 {
		reason := ""
		for _, e := range h.w.events {
			if e.Kind == "TargetEvaluating" && e.Label == st[0] {
				reason = e.Text
			}
		}
		return simcheck.V("fingerprint-unstable", "a second load of identical project text re-executed %s (dawn's reason: %q)", st[0], reason)
	}
	c.St.Count("stable_reloads", 1)
	// (c'') ... and so does another OS process (the Go runtime seeds its hashes per process)
	if c.Tapes.Get("child").Intn(4) == 0 {
		step++
		if cr, ok := h.buildInChild(step, &opSpec{Op: "build", Label: "//:all"}); ok && cr.Failure == "" && cr.LoadErr == "" && cr.RunErr == "" {
			if len(cr.Started) > 0 {
				return simcheck.V("fingerprint-unstable", "another OS process loading identical project text re-executed %s (dawn's reason: %q)", cr.Started[0], cr.Reasons[cr.Started[0]])
			}
			c.St.Count("stable_in_another_os_process", 1)
		}
	}
	// (c') identical project text in another directory (a moved checkout, state included)
	if c.Tapes.Get("moved").Intn(3) == 0 {
		orig := h.w.root
		moved := filepath.Join(filepath.Dir(orig), "elsewhere", "proj2")
		if err := os.MkdirAll(filepath.Dir(moved), 0755); err != nil {
			return simcheck.V(simcheck.EngineError, "mkdir: %v", err)
		}
		if err := os.Rename(orig, moved); err != nil {
			return simcheck.V(simcheck.EngineError, "rename: %v", err)
		}
		h.w.root = moved
		h.w.bodies = h.p.bodySpecs(moved)
		h.w.events = nil
		_, v := run("rebuild of the unchanged tree after moving it to another directory")
		var st []string
		reason := ""
		if v == nil {
			st = h.startsIn(step)
			for _, e := range h.w.events {
				if len(st) > 0 && e.Kind == "TargetEvaluating" && e.Label == st[0] {
					reason = e.Text
				}
			}
		}
		if err := os.Rename(moved, orig); err != nil {
			return simcheck.V(simcheck.EngineError, "rename back: %v", err)
		}
		h.w.root = orig
		h.w.bodies = h.p.bodySpecs(orig)
		if v != nil {
			if v.Class == "skip" {
				return nil
			}
			return v
		}
		if len(st) > 0 {
			return simcheck.V("fingerprint-unstable", "identical project text, moved to another directory together with its build state, re-executed %s (dawn's reason: %q)", st[0], reason)
		}
		c.St.Count("stable_after_move", 1)
	}
	// (d) changing any referenced item makes the referencing targets' fingerprints unequal
	for i := range sc.Ops {
		op := &sc.Ops[i]
		if op.Op != "edit-item" && op.Op != "bump-req" {
			continue
		}
		before := map[string]string{}
		for l, k := range h.keys {
			before[l] = k
		}
		if err := h.edit(100+i, op); err != nil {
			return simcheck.V(simcheck.EngineError, "edit: %v", err)
		}
		h.w.events = nil
		if op.Op == "bump-req" && c.Tapes.Get("reload").Intn(2) == 0 {
			reloadNext = true // dawn.toml changed under watch mode: Reload, then build
			c.St.Count("requirement_moves_under_reload", 1)
		}
		if _, v := run(fmt.Sprintf("build after editing %s", op.Item)); v != nil {
			if v.Class == "skip" {
				return nil
			}
			return v
		}
		started := map[string]bool{}
		for _, l := range h.startsIn(step) {
			started[l] = true
		}
		inClosure := map[string]bool{}
		for _, t := range h.p.closure("//:all") {
			inClosure[t.label()] = true
		}
		for l, k := range h.keys {
			if before[l] != k && !started[l] && inClosure[l] {
				saw := ""
				for _, e := range h.w.events {
					if e.Label == l {
						saw += e.Kind + "(" + e.Text + ") "
					}
				}
				what := "editing " + op.Item
				if op.Op == "bump-req" {
					what = fmt.Sprintf("moving the requirement on %s to %s", extPath(atoiOr(op.Item)), extVersion(atoiOr(op.Item), ((op.N%len(extVersions))+len(extVersions))%len(extVersions)))
				}
				return simcheck.V("fingerprint-misses-change", "after %s, which %s references (directly or through what it loads), a build did not re-execute %s (events: %s)", what, l, l, saw)
			}
		}
		c.St.Count("edits_detected", 1)
		if op.Op == "bump-req" {
			c.St.Count("requirement_moves_detected", 1)
			var e int
			fmt.Sscan(op.Item, &e)
			for l, k := range h.keys {
				if t := h.p.target(l); before[l] != k && t != nil && inClosure[l] {
					direct := false
					for _, rf := range t.Refs {
						direct = direct || ((rf.Kind == "extfunc" || rf.Kind == "extconst") && rf.Mod == e)
					}
					if !direct {
						c.St.Probes["requirement_move_reached_a_target_through_another_project_or_helper"]++
					}
				}
			}
		}
	}
	// (e) values that change while the project stays loaded (the REPL's run(), an embedder):
	// a forced run executes the bodies that append to their own default list, so on the next
	// run of the same loaded project those functions reference other values than recorded
	var mut []string
	for _, t := range h.p.closure("//:all") {
		for _, rf := range t.Refs {
			if rf.Kind == "mutdefault" {
				mut = append(mut, t.label())
			}
		}
	}
	if len(mut) > 0 && h.lastProj != nil {
		for k, always := range []bool{true, false} {
			step++
			h.w.events = nil
			res := h.build(step, &opSpec{Op: "build", Label: "//:all", Keep: true, Always: always}, h.pc, nil)
			if v := procFailure(res); v != nil || res.LoadErr != nil || res.RunErr != nil {
				if v != nil && v.Class == "panic" {
					return simcheck.V("fingerprint-crash", "run %d on one loaded project: %s", k+2, v.Msg)
				}
				c.St.Count("kept_project_run_failed", 1)
				return nil
			}
		}
		started := map[string]bool{}
		for _, l := range h.startsIn(step) {
			started[l] = true
		}
		for _, l := range mut {
			if !started[l] {
				return simcheck.V("fingerprint-misses-change", "the body of %s appended to its own default list in the previous run on this loaded project, so the values it references have changed, but the next run did not re-execute it", l)
			}
		}
		c.St.Count("runtime_mutations_detected", 1)
	}
	return nil
}
