package dawn

import (
	"fmt"
	"math/rand/v2"
	"path/filepath"
	"sort"
	"strings"
)

type genOpts struct {
	MaxTargets int
	MaxMods    int
	Recursion  bool // recursive helpers (C08)
	BigValues  bool
	Flags      bool
	Always     bool
	GenSources bool // generated files used as sources of other targets
	Exts       int  // per cent of projects that require other projects (ext.go)
}

var textPool = []string{"", "", "one line\n", "first\nsecond\n", "no newline at end", "a\n\nb\n", "x\ny\nz", "\n", "ünï\ncode ✓\n", "tab\there\n" + strings.Repeat("long line ", 30) + "\n", "dos\r\nline\r\n", strings.Repeat("x", 5000) + "\nend"}

func genProject(r *rand.Rand, o genOpts) *projSpec {
	p := &projSpec{Files: map[string]string{}}
	pkgs := []string{"//"}
	for _, cand := range []string{"//a", "//a/b", "//c", "//c++"} {
		if r.IntN(100) < 45 && (cand != "//c++" || r.IntN(2) == 0) {
			pkgs = append(pkgs, cand)
		}
	}
	for _, pk := range pkgs {
		ps := pkgSpec{Path: pk}
		ng := 1 + r.IntN(3)
		for g := 0; g < ng; g++ {
			kinds := valueKinds
			if !o.BigValues {
				kinds = valueKinds[:15]
			}
			ps.Globals = append(ps.Globals, globalSpec{Name: fmt.Sprintf("G%d", g), Val: genValue(r, kinds)})
		}
		ps.Predecl = r.IntN(3) == 0
		p.Packages = append(p.Packages, ps)
	}
	if o.Flags && r.IntN(100) < 30 {
		i := r.IntN(len(p.Packages))
		p.Packages[i].Flag = "opt"
		p.Packages[i].FlagDef = "d0"
		if r.IntN(2) == 0 {
			p.FlagArg = "a0"
		}
	}
	// helper modules; module i may load modules with a higher index (acyclic)
	nm := 0
	if o.MaxMods > 0 {
		nm = r.IntN(o.MaxMods + 1)
	}
	for i := 0; i < nm; i++ {
		m := moduleSpec{Pkg: pkgs[r.IntN(len(pkgs))], File: fmt.Sprintf("lib%d.dawn", i), Yields: r.IntN(3)}
		for k := 0; k < 1+r.IntN(2); k++ {
			m.Consts = append(m.Consts, globalSpec{Name: fmt.Sprintf("LIB%d_K%d", i, k), Val: genValue(r, valueKinds[:15])})
		}
		p.Modules = append(p.Modules, m)
	}
	for i := 0; i < nm; i++ {
		m := &p.Modules[i]
		for j := i + 1; j < nm; j++ {
			if r.IntN(100) < 40 {
				m.Loads = append(m.Loads, j)
			}
		}
		nf := r.IntN(3)
		for k := 0; k < nf; k++ {
			h := helperSpec{Name: fmt.Sprintf("lib%d_f%d", i, k), Lit: genValue(r, literalKinds)}
			if r.IntN(2) == 0 {
				h.Const = m.Consts[r.IntN(len(m.Consts))].Name
			}
			if o.Recursion && r.IntN(4) == 0 {
				h.Rec = true
			}
			m.Funcs = append(m.Funcs, h)
		}
	}
	// helper-to-helper calls: same module (lower index defined earlier is fine: call happens at run time), or loaded modules
	for i := 0; i < nm; i++ {
		m := &p.Modules[i]
		for k := range m.Funcs {
			if r.IntN(3) != 0 {
				continue
			}
			var cands []string
			for k2 := range m.Funcs {
				if k2 > k {
					cands = append(cands, m.Funcs[k2].Name)
				}
			}
			for _, j := range m.Loads {
				for _, f := range p.Modules[j].Funcs {
					cands = append(cands, f.Name)
				}
			}
			if len(cands) > 0 {
				m.Funcs[k].Calls = cands[r.IntN(len(cands))]
			}
		}
	}

	if o.Exts > 0 && r.IntN(100) < o.Exts {
		genExts(r, p, false)
		var direct []int
		for e := range p.Exts {
			if p.Exts[e].Sel >= 0 {
				direct = append(direct, e)
			}
		}
		for i := 0; i < nm; i++ {
			// a helper module of the root project that loads a required project's module
			if m := &p.Modules[i]; len(direct) > 0 && r.IntN(100) < 30 {
				e := direct[r.IntN(len(direct))]
				m.LoadExt = append(m.LoadExt, e)
				for k := range m.Funcs {
					if m.Funcs[k].Calls == "" {
						m.Funcs[k].Calls = fmt.Sprintf("ext%d_f", e)
						break
					}
				}
			}
		}
	}

	nt := 2 + r.IntN(o.MaxTargets-1)
	for i := 0; i < nt; i++ {
		t := targetSpec{Pkg: pkgs[r.IntN(len(pkgs))], Name: fmt.Sprintf("t%d", i), Yields: r.IntN(3), Text: textPool[r.IntN(len(textPool))]}
		t.Form = []string{"decorator", "decorator", "call", "closure"}[r.IntN(4)]
		t.SelfParam = r.IntN(3) == 0
		t.ReadsDeps = r.IntN(2) == 0
		if o.Always && r.IntN(100) < 8 {
			t.Always = true
		}
		p.Targets = append(p.Targets, t)
	}
	// one default per package at most
	for _, pk := range pkgs {
		var idx []int
		for i := range p.Targets {
			if p.Targets[i].Pkg == pk {
				idx = append(idx, i)
			}
		}
		if len(idx) > 0 && r.IntN(100) < 60 {
			p.Targets[idx[r.IntN(len(idx))]].Default = true
		}
	}
	for i := range p.Targets {
		t := &p.Targets[i]
		for j := i + 1; j < nt; j++ {
			if r.IntN(100) < 35 {
				t.Deps = append(t.Deps, p.Targets[j].label())
				sp := 0
				if r.IntN(6) == 0 {
					sp = 1 + r.IntN(3)
				}
				t.DepSpell = append(t.DepSpell, sp)
			}
		}
		// generated files
		for k := 0; k < r.IntN(3); k++ {
			name := fmt.Sprintf("%s.out%d", t.Name, k)
			if r.IntN(3) == 0 {
				name = "out/" + name
			}
			t.Generates = append(t.Generates, name)
		}
	}
	for i := range p.Targets {
		t := &p.Targets[i]
		dir := pkgDir(t.Pkg)
		for k := 0; k < r.IntN(3); k++ {
			name := fmt.Sprintf("src_%s_%d.txt", t.Name, k)
			if r.IntN(5) == 0 {
				// characters that URL path- and query-escaping treat differently
				name = []string{"src %s+%d.txt", "icon@2x_%s_%d.txt", "q&a=%s_%d.txt", "k$%s %d.txt"}[r.IntN(4)]
				name = fmt.Sprintf(name, t.Name, k)
			}
			t.Sources = append(t.Sources, name)
			p.Files[filepath.Join(dir, name)] = fmt.Sprintf("content of %s v0\n", name)
		}
		if r.IntN(100) < 30 {
			d := "dir_" + t.Name
			t.Sources = append(t.Sources, d)
			for k := 0; k < 1+r.IntN(3); k++ {
				p.Files[filepath.Join(dir, d, fmt.Sprintf("f%d.txt", k))] = fmt.Sprintf("dir file %d of %s v0\n", k, t.Name)
			}
			if r.IntN(3) == 0 {
				p.Files[filepath.Join(dir, d, "sub", "deep.txt")] = "deep v0\n"
				if r.IntN(2) == 0 {
					p.Files[filepath.Join(dir, d, "sub", "zz.txt")] = "last of sub v0\n"
				}
			}
			if r.IntN(4) == 0 {
				// a symbolic link inside the source directory to a file outside it
				p.Files[filepath.Join(dir, d, "zlink.txt")] = linkMark + "../linked_" + t.Name + ".txt"
				p.Files[filepath.Join(dir, "linked_"+t.Name+".txt")] = "linked from " + t.Name + " v0\n"
			}
			if r.IntN(5) == 0 {
				// ... and a link to a directory outside it
				p.Files[filepath.Join(dir, d, "zdirlink")] = linkMark + "../linked_dir_" + t.Name
				p.Files[filepath.Join(dir, "linked_dir_"+t.Name, "inner.txt")] = "inner of " + t.Name + " v0\n"
			}
			if r.IntN(3) == 0 {
				p.Files[filepath.Join(dir, d, "en", "msg.txt")] = "hello\n"
				p.Files[filepath.Join(dir, d, "fr", "other.txt")] = "salut\n"
			}
		}
		t.SrcTwice = r.IntN(100) < 8
		if len(t.Generates) > 0 && r.IntN(100) < 8 {
			// a source whose name begins with the name of a file the target generates
			name := t.Generates[0] + ".tmpl"
			t.Sources = append(t.Sources, name)
			p.Files[filepath.Join(dir, name)] = "template of " + t.Name + " v0\n"
		}
		if i > 0 && r.IntN(100) < 12 {
			// a plain source file of an earlier target (often in another package) is a source
			// of this one too: one source label, named from two modules
			j := r.IntN(i)
			o := &p.Targets[j]
			for _, s := range o.Sources {
				full := p.sourceRel(o, s)
				if c, ok := p.Files[full]; ok && !strings.HasPrefix(c, linkMark) && !strings.HasPrefix(s, "dir_") && !strings.Contains(s, "..") {
					if rel, err := filepath.Rel("/"+dir, "/"+full); err == nil {
						dup := false
						for _, x := range t.Sources {
							dup = dup || x == rel
						}
						if !dup {
							t.Sources = append(t.Sources, rel)
						}
					}
					break
				}
			}
		}
		if r.IntN(100) < 20 {
			// sources named by a glob: adding or deleting a matching file changes the input set
			d := "gdir_" + t.Name
			t.GlobDirs = append(t.GlobDirs, d)
			for k := 0; k < 1+r.IntN(3); k++ {
				p.Files[filepath.Join(dir, d, fmt.Sprintf("g%d.txt", k))] = fmt.Sprintf("glob file %d of %s v0\n", k, t.Name)
			}
		}
		if o.GenSources && r.IntN(100) < 35 {
			// use a file generated by a later target as a source
			var cands []int
			for j := i + 1; j < nt; j++ {
				if len(p.Targets[j].Generates) > 0 {
					cands = append(cands, j)
				}
			}
			if len(cands) > 0 {
				g := &p.Targets[cands[r.IntN(len(cands))]]
				gen := filepath.Join(pkgDir(g.Pkg), g.Generates[r.IntN(len(g.Generates))])
				rel, err := filepath.Rel("/"+dir, "/"+gen)
				if err == nil {
					t.Sources = append(t.Sources, rel)
				}
			}
		}
		// references
		pk := p.pkg(t.Pkg)
		nr := r.IntN(5)
		seenDefault, seenFree, seenTwins, seenCache, seenLate, seenStruct, seenKw, seenFnKeys := false, false, false, false, false, false, false, false
		for k := 0; k < nr; k++ {
			kinds := []string{"lit", "lit", "global", "global", "nested", "default", "freevar", "predecl", "target", "twins", "lateglobal", "structfn", "kwonly", "fnkeys"}
			if pk.Predecl {
				kinds = append(kinds, "cacheonce")
			}
			if nm > 0 {
				kinds = append(kinds, "libconst", "libconst", "libfunc", "libfunc", "libfunc")
			}
			if pk.Flag != "" {
				kinds = append(kinds, "flag", "flag")
			}
			if len(p.Exts) > 0 {
				kinds = append(kinds, "extconst", "extfunc", "extfunc", "extfunc")
			}
			kind := kinds[r.IntN(len(kinds))]
			ref := refSpec{Kind: kind}
			switch kind {
			case "lit":
				ref.Val = genValue(r, literalKinds)
			case "global", "nested":
				ref.Name = pk.Globals[r.IntN(len(pk.Globals))].Name
			case "default":
				if seenDefault {
					continue
				}
				seenDefault = true
				ref.Name = "p"
				ref.Val = genValue(r, valueKinds[:15])
			case "freevar":
				if seenFree {
					continue
				}
				seenFree = true
				ref.Name = "fv"
				ref.Val = genValue(r, valueKinds[:15])
			case "lateglobal":
				if seenLate {
					continue
				}
				seenLate = true
				ref.Val = genValue(r, valueKinds[:15])
				ref.Val2 = genValue(r, literalKinds)
			case "structfn":
				if seenStruct {
					continue
				}
				seenStruct = true
				ref.Val = genValue(r, literalKinds)
			case "fnkeys":
				// a dict and a set whose keys are functions, a struct and a tuple holding one
				if seenFnKeys {
					continue
				}
				seenFnKeys = true
				ref.Val = genValue(r, literalKinds)
			case "kwonly":
				// a helper with a keyword-only parameter that has no default, and one that has
				if seenKw {
					continue
				}
				seenKw = true
				ref.Val = genValue(r, literalKinds)
			case "twins":
				if seenTwins {
					continue
				}
				seenTwins = true
				ref.Val = genValue(r, valueKinds[:15])
				ref.Val2 = genValue(r, valueKinds[:15])
			case "cacheonce":
				if seenCache {
					continue
				}
				seenCache = true
				ref.Val = genValue(r, literalKinds)
			case "predecl":
				names := []string{"host", "package"}
				if pk.Predecl {
					names = append(names, "CACHE0")
				}
				ref.Name = names[r.IntN(len(names))]
			case "target":
				var cands []string
				for j := 0; j < i; j++ {
					if p.Targets[j].Pkg == t.Pkg {
						cands = append(cands, p.Targets[j].Name)
					}
				}
				if len(cands) == 0 {
					continue
				}
				ref.Name = cands[r.IntN(len(cands))]
			case "libconst":
				ref.Mod = r.IntN(nm)
				m := &p.Modules[ref.Mod]
				ref.Name = m.Consts[r.IntN(len(m.Consts))].Name
			case "libfunc":
				ref.Mod = r.IntN(nm)
				m := &p.Modules[ref.Mod]
				if len(m.Funcs) == 0 {
					continue
				}
				ref.Name = m.Funcs[r.IntN(len(m.Funcs))].Name
			case "flag":
				ref.Name = pk.Flag
			case "extconst", "extfunc":
				var direct []int
				for e := range p.Exts {
					if p.Exts[e].Sel >= 0 {
						direct = append(direct, e)
					}
				}
				if len(direct) == 0 {
					continue
				}
				ref.Mod = direct[r.IntN(len(direct))]
			}
			t.Refs = append(t.Refs, ref)
		}
	}
	return p
}

// ---------------------------------------------------------------- model queries

func (p *projSpec) helper(name string) (*moduleSpec, *helperSpec, int) {
	for i := range p.Modules {
		for k := range p.Modules[i].Funcs {
			if p.Modules[i].Funcs[k].Name == name {
				return &p.Modules[i], &p.Modules[i].Funcs[k], i
			}
		}
	}
	return nil, nil, -1
}

func (p *projSpec) helperItems(name string, out map[string]string, seen map[string]bool) {
	if seen[name] {
		return
	}
	seen[name] = true
	var ei int
	if n, _ := fmt.Sscanf(name, "ext%d_f", &ei); n == 1 && strings.HasPrefix(name, "ext") {
		p.extItems(ei, true, out, map[int]bool{})
		return
	}
	m, h, mi := p.helper(name)
	if h == nil {
		return
	}
	out[fmt.Sprintf("hlit|%d|%s", mi, h.Name)] = h.Lit.render()
	out[fmt.Sprintf("hshape|%d|%s", mi, h.Name)] = fmt.Sprintf("%s/%s/%v/%s", h.Const, h.Calls, h.Rec, h.Mut)
	if h.Const != "" {
		for _, c := range m.Consts {
			if c.Name == h.Const {
				out[fmt.Sprintf("const|%d|%s", mi, c.Name)] = c.Val.render()
			}
		}
	}
	if h.Calls != "" {
		p.helperItems(h.Calls, out, seen)
	}
	if h.Mut != "" {
		p.helperItems(h.Mut, out, seen)
	}
}

// generatorOf returns the target that generates the file at root-relative path, if any.
func (p *projSpec) generatorOf(rel string) *targetSpec {
	rel = filepath.Clean(rel)
	for i := range p.Targets {
		t := &p.Targets[i]
		for _, g := range t.Generates {
			if filepath.Clean(filepath.Join(pkgDir(t.Pkg), g)) == rel {
				return t
			}
		}
	}
	return nil
}

func (p *projSpec) sourceRel(t *targetSpec, s string) string {
	return filepath.Clean(filepath.Join(pkgDir(t.Pkg), s))
}

// inputItems is the model's view of inputs (1)-(2) of C01 for one target: every semantic
// item its function references (transitively through helpers) and the bytes of its
// non-generated sources, each as id -> canonical text.
func (p *projSpec) inputItems(t *targetSpec) map[string]string {
	out := map[string]string{}
	var shape []string
	for i, r := range t.Refs {
		shape = append(shape, r.Kind+":"+r.Name)
		switch r.Kind {
		case "lit", "default", "freevar", "cacheonce", "structfn", "kwonly", "fnkeys", "dag", "manynested":
			out[fmt.Sprintf("ref|%s|%d", t.label(), i)] = r.Val.render()
		case "twins", "lateglobal":
			out[fmt.Sprintf("ref|%s|%d", t.label(), i)] = r.Val.render()
			out[fmt.Sprintf("ref2|%s|%d", t.label(), i)] = r.Val2.render()
		case "global", "nested", "deep":
			for _, g := range p.pkg(t.Pkg).Globals {
				if g.Name == r.Name {
					out[fmt.Sprintf("global|%s|%s", t.Pkg, g.Name)] = g.Val.render()
				}
			}
		case "libconst":
			for _, c := range p.Modules[r.Mod].Consts {
				if c.Name == r.Name {
					out[fmt.Sprintf("const|%d|%s", r.Mod, c.Name)] = c.Val.render()
				}
			}
		case "libfunc":
			p.helperItems(r.Name, out, map[string]bool{})
		case "extconst":
			p.extItems(r.Mod, false, out, map[int]bool{})
		case "extfunc":
			p.extItems(r.Mod, true, out, map[int]bool{})
		case "flag":
			pk := p.pkg(t.Pkg)
			v := pk.FlagDef
			if p.FlagArg != "" {
				v = p.FlagArg
			}
			out["flag|"+t.Pkg] = v
		}
	}
	out["shape|"+t.label()] = strings.Join(shape, ",") + "|" + t.Form + fmt.Sprint(t.SelfParam) + "|" + strings.Join(p.depReads(t), ",")
	for _, g := range t.GlobDirs {
		// exactly the files the glob "<dir>/*.txt" matches: direct children only
		rel := p.sourceRel(t, g)
		var names []string
		for f := range p.Files {
			if strings.HasPrefix(f, rel+"/") && !strings.Contains(strings.TrimPrefix(f, rel+"/"), "/") && strings.HasSuffix(f, ".txt") {
				names = append(names, f)
			}
		}
		sort.Strings(names)
		var sb strings.Builder
		for _, n := range names {
			fmt.Fprintf(&sb, "%s\x00%s\x00", strings.TrimPrefix(n, rel), p.Files[n])
		}
		out["glob|"+rel] = sb.String()
	}
	for _, s := range t.Sources {
		rel := p.sourceRel(t, s)
		if p.generatorOf(rel) != nil {
			continue
		}
		var names []string
		for f := range p.Files {
			if f == rel || strings.HasPrefix(f, rel+"/") {
				names = append(names, f)
			}
		}
		sort.Strings(names)
		var sb strings.Builder
		for _, n := range names {
			fmt.Fprintf(&sb, "%s\x00%s\x00", strings.TrimPrefix(n, rel), p.fileContent(n))
		}
		out["src|"+rel] = sb.String()
	}
	return out
}

func itemsKey(items map[string]string) string {
	ks := make([]string, 0, len(items))
	for k := range items {
		ks = append(ks, k)
	}
	sort.Strings(ks)
	var sb strings.Builder
	for _, k := range ks {
		fmt.Fprintf(&sb, "%s=%d:%s;", k, len(items[k]), items[k])
	}
	return sb.String()
}

// resolve maps a build label to the function target it denotes ("//pkg:default" aliases the
// package's default target).
func (p *projSpec) resolve(label string) *targetSpec {
	if t := p.target(label); t != nil {
		return t
	}
	if strings.HasSuffix(label, ":default") {
		pkg := strings.TrimSuffix(label, ":default")
		if pkg == "//" || pkg == "/" {
			pkg = "//"
		}
		for i := range p.Targets {
			if p.Targets[i].Pkg == pkg && p.Targets[i].Default {
				return &p.Targets[i]
			}
		}
	}
	return nil
}

// directDeps: function targets T depends on, through deps and through generated sources.
func (p *projSpec) directDeps(t *targetSpec) []*targetSpec {
	var out []*targetSpec
	seen := map[string]bool{}
	add := func(d *targetSpec) {
		if d != nil && !seen[d.label()] {
			seen[d.label()] = true
			out = append(out, d)
		}
	}
	for _, d := range t.Deps {
		add(p.resolve(d))
	}
	for _, s := range t.Sources {
		add(p.generatorOf(p.sourceRel(t, s)))
	}
	return out
}

func (p *projSpec) closure(label string) []*targetSpec {
	root := p.resolve(label)
	if root == nil {
		return nil
	}
	var out []*targetSpec
	seen := map[string]bool{}
	var visit func(t *targetSpec)
	visit = func(t *targetSpec) {
		if seen[t.label()] {
			return
		}
		seen[t.label()] = true
		out = append(out, t)
		for _, d := range p.directDeps(t) {
			visit(d)
		}
	}
	visit(root)
	return out
}

// buildLabels lists labels a history may ask to build.
func (p *projSpec) buildLabels() []string {
	var out []string
	for i := range p.Targets {
		out = append(out, p.Targets[i].label())
		if p.Targets[i].Default {
			l := p.Targets[i].Pkg + ":default"
			if p.Targets[i].Pkg == "//" {
				l = "//:default"
			}
			out = append(out, l)
		}
	}
	return out
}

// genExts adds 1-3 required projects. Project i may load projects with a higher index
// (cycles: only for the load property); a project something else loads need not be a direct
// requirement of the root.
func genExts(r *rand.Rand, p *projSpec, cycles bool) {
	ne := 1 + r.IntN(3)
	for i := 0; i < ne; i++ {
		e := extSpec{Sel: r.IntN(len(extVersions)), Val: genValue(r, valueKinds[:15]), Lit: genValue(r, literalKinds), Loads: -1, Util: r.IntN(3) == 0, Yields: r.IntN(3), Same: r.IntN(6) == 0}
		if i+1 < ne && r.IntN(2) == 0 {
			e.Loads = i + 1 + r.IntN(ne-i-1)
			e.ViaGlobal = r.IntN(2) == 0
			if alt := i + 1 + r.IntN(ne-i-1); alt != e.Loads && r.IntN(3) == 0 {
				e.AltDep = alt + 1 // odd versions put another project behind the alias
			}
		}
		p.Exts = append(p.Exts, e)
	}
	loaded := map[int]bool{}
	for i := range p.Exts {
		if p.Exts[i].Loads >= 0 {
			loaded[p.Exts[i].Loads] = true
		}
		if p.Exts[i].AltDep > 0 {
			loaded[p.Exts[i].AltDep-1] = true
		}
	}
	for i := range p.Exts {
		if loaded[i] && r.IntN(100) < 40 {
			p.Exts[i].Sel = -1 // reached through another project only
		}
	}
	if !cycles && r.IntN(3) == 0 {
		// two directed shapes, three projects, all of them direct requirements of the root:
		for len(p.Exts) < 3 {
			p.Exts = append(p.Exts, extSpec{Sel: r.IntN(len(extVersions)), Val: genValue(r, valueKinds[:14]), Lit: genValue(r, literalKinds), Loads: -1})
		}
		ne = len(p.Exts)
		for i := range p.Exts {
			if p.Exts[i].Sel < 0 {
				p.Exts[i].Sel = r.IntN(len(extVersions))
			}
			p.Exts[i].Same = false
		}
		p.Exts[0].Loads, p.Exts[0].ViaGlobal = 1, r.IntN(2) == 0
		if r.IntN(2) == 0 {
			// (a) the odd versions of project 0 put project 2 behind the alias that otherwise
			// names project 1; both stay in the build list whichever is behind it
			p.Exts[0].AltDep = 3
		} else {
			// (b) a diamond: project 1 is required by the root and by project 0, at versions that
			// differ, and requires project 2 - more in some older version than in a newer one
			p.Exts[0].AltDep = 0
			p.Exts[1].Loads, p.Exts[1].ViaGlobal = 2, r.IntN(2) == 0
		}
	}
	if !cycles && r.IntN(4) == 0 {
		// the next major version of project 0 as a project of its own (same repository, the
		// path ...@v2), required by the root next to project 0
		for len(p.Exts) < extTwin {
			p.Exts = append(p.Exts, extSpec{Sel: r.IntN(len(extVersions)), Val: genValue(r, valueKinds[:14]), Lit: genValue(r, literalKinds), Loads: -1})
		}
		if p.Exts[0].Sel < 0 {
			p.Exts[0].Sel = r.IntN(len(extVersions))
		}
		p.Exts = append(p.Exts[:extTwin:extTwin], extSpec{Sel: r.IntN(len(extVersions)), Val: genValue(r, valueKinds[:14]), Lit: genValue(r, literalKinds), Loads: -1, Util: p.Exts[0].Util})
		ne = len(p.Exts)
	}
	if cycles && ne > 1 && r.IntN(4) == 0 {
		// the last project loads the first: a load cycle (and a requirement cycle) across projects
		p.Exts[ne-1].Loads = r.IntN(ne - 1)
	}
}
