package dawn

import (
	"fmt"
	"math/rand/v2"
	"path/filepath"
	"sort"
	"strings"

	"verif.local/sim/simcheck"
)

func newHistScenario() any { return &histScenario{} }

func defaultGenOpts(tier string) genOpts {
	o := genOpts{MaxTargets: 6, MaxMods: 3, BigValues: true, Flags: true, Always: true, GenSources: true, Recursion: true, Exts: 25}
	if tier == "thorough" {
		o.MaxTargets = 10
		o.MaxMods = 4
	}
	return o
}

// shapeOverlap picks a target with two dependencies x, y (in that order), makes x quick and y
// slow (in both copies of the spec) and returns the target's label, x's label and the plain
// source files of y: a build in which x fails finds y still busy.
func shapeOverlap(r *rand.Rand, shadow, spec *projSpec) (string, string, []string) {
	var cands []int
	for ti := range shadow.Targets {
		if len(shadow.Targets[ti].Deps) >= 2 && shadow.target(shadow.Targets[ti].Deps[0]) != nil && shadow.target(shadow.Targets[ti].Deps[1]) != nil {
			cands = append(cands, ti)
		}
	}
	if len(cands) == 0 {
		// make one: an early target gains two later ones as its first dependencies
		n := len(shadow.Targets)
		if n < 3 {
			return "", "", nil
		}
		i := r.IntN(n - 2)
		j := i + 1 + r.IntN(n-i-2)
		k := j + 1 + r.IntN(n-j-1)
		lj, lk := shadow.Targets[j].label(), shadow.Targets[k].label()
		if shadow.reaches(&shadow.Targets[j], &shadow.Targets[i]) || shadow.reaches(&shadow.Targets[k], &shadow.Targets[i]) || shadow.reaches(&shadow.Targets[k], &shadow.Targets[j]) {
			return "", "", nil
		}
		li := shadow.Targets[i].label()
		for _, l := range []string{li, lj, lk} {
			if spec.target(l) == nil {
				return "", "", nil // a target the history adds later: the initial spec cannot be shaped
			}
		}
		for _, sp := range []*projSpec{shadow, spec} {
			t := sp.target(li)
			var deps []string
			var spell []int
			for d, l := range t.Deps {
				if l != lj && l != lk {
					deps = append(deps, l)
					if d < len(t.DepSpell) {
						spell = append(spell, t.DepSpell[d])
					} else {
						spell = append(spell, 0)
					}
				}
			}
			t.Deps = append([]string{lj, lk}, deps...)
			t.DepSpell = append([]int{0, 0}, spell...)
		}
		cands = []int{i}
	}
	t := &shadow.Targets[cands[r.IntN(len(cands))]]
	x, y := shadow.target(t.Deps[0]), shadow.target(t.Deps[1])
	if x == y || shadow.reaches(y, x) || spec.target(x.label()) == nil || spec.target(y.label()) == nil || spec.target(t.label()) == nil {
		return "", "", nil
	}
	plain := func() []string {
		var files []string
		for _, s := range y.Sources {
			if rel := shadow.sourceRel(y, s); shadow.Files[rel] != "" && !strings.HasPrefix(shadow.Files[rel], linkMark) && shadow.generatorOf(rel) == nil {
				files = append(files, rel)
			}
		}
		sort.Strings(files)
		return files
	}
	files := plain()
	if len(files) == 0 {
		// give y a source file of its own
		name := "ovl_" + y.Name + ".txt"
		for _, sp := range []*projSpec{shadow, spec} {
			ty := sp.target(y.label())
			ty.Sources = append(ty.Sources, name)
			sp.Files[filepath.Join(pkgDir(ty.Pkg), name)] = "content of " + name + " v0\n"
		}
		files = plain()
	}
	for _, sp := range []*projSpec{shadow, spec} {
		sp.target(x.label()).Yields = 0
		sp.target(y.label()).Yields = 14
	}
	return t.label(), x.label(), files
}

func pickLabel(r *rand.Rand, p *projSpec) string {
	ls := p.buildLabels()
	return ls[r.IntN(len(ls))]
}

// ---------------------------------------------------------------- C01

// c01Gen: project x history mixing semantic edits, no-op edits, full and partial builds,
// failing builds, dry runs and GC.
func c01Gen(r *rand.Rand, tier string) any {
	sc := &histScenario{Spec: genProject(r, defaultGenOpts(tier)), Proc: genProc(r)}
	n := 3 + r.IntN(6)
	if tier == "thorough" {
		n = 3 + r.IntN(10)
	}
	shadow := sc.clone().Spec
	sc.Ops = append(sc.Ops, opSpec{Op: "build", Label: pickLabel(r, shadow)})
	for i := 0; i < n; i++ {
		switch k := r.IntN(20); {
		case k < 8:
			op := genSemanticEdit(r, shadow, i+1)
			shadow.applySpecEdit(op)
			sc.Ops = append(sc.Ops, *op)
		case k < 10:
			op := genNoopEdit(r, shadow, pickLabel(r, shadow), i+1)
			shadow.applySpecEdit(op)
			sc.Ops = append(sc.Ops, *op)
		case k < 17:
			op := opSpec{Op: "build", Label: pickLabel(r, shadow)}
			op.Reload = r.IntN(6) == 0
			op.Keep = !op.Reload && r.IntN(5) == 0
			if r.IntN(8) == 0 {
				op.Always = true
			}
			if r.IntN(8) == 0 {
				op.Dry = true
			}
			if r.IntN(12) == 0 {
				op.IOErrPM = []int{5, 20, 60}[r.IntN(3)] // a flaky disk during this build
			}
			if r.IntN(9) == 0 {
				op.CrashAt = 1 + r.IntN(700) // the process dies at this step (if the build gets that far)
			}
			if r.IntN(5) == 0 {
				// some bodies fail
				for _, t := range shadow.closure(op.Label) {
					if r.IntN(3) == 0 {
						op.Fail = append(op.Fail, t.label())
					}
				}
			}
			if r.IntN(8) == 0 && !op.Reload && !op.Keep && !op.Dry && op.CrashAt == 0 && op.IOErrPM == 0 {
				// watch mode: a target's first dependency fails while a later one is still
				// busy; the build fails, a source of the busy one is edited right after the
				// build returned, and the same process builds again
				if tl, xl, files := shapeOverlap(r, shadow, sc.Spec); tl != "" && len(files) > 0 {
					ed := opSpec{Op: "edit-source", Path: files[r.IntN(len(files))], N: 1000 + i}
					shadow.applySpecEdit(&ed)
					op.Label, op.Fail, op.Always = tl, []string{xl}, true // forced, so that x and y both run
					op.Twice, op.Between = true, &ed
				}
			}
			if r.IntN(14) == 0 && op.Between == nil {
				// REPL / watch: a dry run with options, (N=1: Reload,) then Run with nil options
				op = opSpec{Op: "build", Label: op.Label, DryNil: true, N: r.IntN(2)}
			}
			sc.Ops = append(sc.Ops, op)
		case k < 18 && r.IntN(2) == 0:
			// the dependency SET of a target changes (a glob gains a file, an edge is added),
			// the rebuild is interrupted, and the change is undone: the tree is what it was
			label := pickLabel(r, shadow)
			var eds [][2]opSpec
			for _, t := range shadow.closure(label) {
				for _, g := range t.GlobDirs {
					rel := shadow.sourceRel(t, g)
					eds = append(eds, [2]opSpec{{Op: "dir-add", Path: rel, N: 500 + i}, {Op: "dir-unadd", Path: rel, N: 500 + i}})
				}
				for _, o := range shadow.closure(label) {
					if o != t && !shadow.reaches(o, t) && !t.ReadsDeps {
						has := false
						for _, d := range t.Deps {
							has = has || d == o.label()
						}
						if !has {
							eds = append(eds, [2]opSpec{{Op: "add-dep", Label: t.label(), Item: o.label()}, {Op: "remove-dep-label", Label: t.label(), Item: o.label()}})
						}
					}
				}
			}
			// ... or a generated file is deleted and the rebuild that re-creates it is interrupted
			for _, t := range shadow.closure(label) {
				if len(t.Generates) > 0 {
					eds = append(eds, [2]opSpec{{Op: "delete-generated", Label: t.label(), N: r.IntN(2)}, {Op: "nop"}})
				}
			}
			if len(eds) > 0 {
				e := eds[r.IntN(len(eds))]
				sc.Ops = append(sc.Ops, opSpec{Op: "build", Label: label}, e[0], opSpec{Op: "build", Label: label, CrashAt: 1 + r.IntN(700)}, e[1], opSpec{Op: "build", Label: label})
			}
		case k < 18 && r.IntN(3) == 0:
			// an interrupted dependency: a source of a dependency is edited, the rebuild dies
			// (often inside that dependency's body), the dependency alone is built by the next
			// process, and then the dependent
			label := pickLabel(r, shadow)
			var cands [][2]string
			for _, t := range shadow.closure(label) {
				if t.label() == label {
					continue
				}
				for _, s := range t.Sources {
					if rel := shadow.sourceRel(t, s); shadow.Files[rel] != "" && !strings.HasPrefix(shadow.Files[rel], linkMark) && shadow.generatorOf(rel) == nil {
						cands = append(cands, [2]string{t.label(), rel})
					}
				}
			}
			if len(cands) > 0 {
				d := cands[r.IntN(len(cands))]
				ed := opSpec{Op: "edit-source", Path: d[1], N: 2000 + i}
				shadow.applySpecEdit(&ed)
				sc.Ops = append(sc.Ops, opSpec{Op: "build", Label: label}, ed, opSpec{Op: "build", Label: label, CrashAt: 1 + r.IntN(500)},
					opSpec{Op: "build", Label: d[0]}, opSpec{Op: "build", Label: label})
			}
		case k < 18 && r.IntN(2) == 0:
			// a flaky step on a loaded project (the REPL's run() twice, an embedder): a target
			// runs because its output is missing - or because the run is forced -, its body
			// fails after (half) writing the output, and the same loaded project runs again
			label := pickLabel(r, shadow)
			var cands []string
			for _, t := range shadow.closure(label) {
				if len(t.Generates) > 0 && !t.Always {
					cands = append(cands, t.label())
				}
			}
			if len(cands) > 0 {
				tl := cands[r.IntN(len(cands))]
				sc.Ops = append(sc.Ops, opSpec{Op: "build", Label: label})
				op := opSpec{Op: "build", Label: label, Twice: true, Fail: []string{tl}, FailLate: true, Between: &opSpec{Op: "nop"}}
				if r.IntN(2) == 0 {
					sc.Ops = append(sc.Ops, opSpec{Op: "delete-generated", Label: tl, N: 0})
				} else {
					op.Always, op.SecondPlain = true, true
				}
				sc.Ops = append(sc.Ops, op)
			}
		case k < 18:
			sc.Ops = append(sc.Ops, opSpec{Op: "gc"})
		case k < 19:
			sc.Ops = append(sc.Ops, opSpec{Op: "load-only", Index: r.IntN(2) == 0})
		default:
			sc.Ops = append(sc.Ops, opSpec{Op: "extra-global", Label: shadow.Packages[r.IntN(len(shadow.Packages))].Path})
			shadow.applySpecEdit(&sc.Ops[len(sc.Ops)-1])
		}
	}
	if len(shadow.Exts) > 0 && r.IntN(2) == 0 {
		// a requirement moves to another version (also under watch-mode Reload): what the
		// targets reach through the required projects changes, directly or transitively
		var direct []int
		for e := range shadow.Exts {
			if shadow.Exts[e].Sel >= 0 {
				direct = append(direct, e)
			}
		}
		if len(direct) > 0 {
			label := pickLabel(r, shadow)
			for _, t := range shadow.Targets {
				for _, rf := range t.Refs {
					if (rf.Kind == "extfunc" || rf.Kind == "extconst") && r.IntN(2) == 0 {
						label = t.label()
					}
				}
			}
			sc.Ops = append(sc.Ops, opSpec{Op: "build", Label: label})
			for k := 0; k < 1+r.IntN(2); k++ {
				e := direct[r.IntN(len(direct))]
				if r.IntN(2) == 0 {
					e = direct[0]
				}
				op := opSpec{Op: "bump-req", Item: fmt.Sprint(e), N: shadow.Exts[e].Sel + 1 + r.IntN(len(extVersions)-1)}
				if sel := shadow.extSelected(); r.IntN(3) == 0 {
					// ... to exactly the version the build list selects already (another project
					// demands it): the lower version, and what only it required, drop out
					for _, d := range direct {
						if sel[d] > shadow.Exts[d].Sel {
							op = opSpec{Op: "bump-req", Item: fmt.Sprint(d), N: sel[d]}
							break
						}
					}
				}
				shadow.applySpecEdit(&op)
				if r.IntN(4) == 0 {
					// the version the requirement moved to cannot be fetched when the project is
					// reloaded (the network is down); the next reload, with the network back and
					// dawn.toml untouched, must pick the new version up
					sc.Ops = append(sc.Ops, op, opSpec{Op: "build", Label: label, Reload: true, NetFailAt: 1 + r.IntN(3)}, opSpec{Op: "build", Label: label, Reload: true})
					continue
				}
				sc.Ops = append(sc.Ops, op, opSpec{Op: "build", Label: label, Reload: r.IntN(2) == 0})
			}
			return sc
		}
	}
	sc.Ops = append(sc.Ops, opSpec{Op: "build", Label: pickLabel(r, shadow)})
	return sc
}

func shortErr(err error) string {
	s := err.Error()
	if len(s) > 90 {
		s = s[:90]
	}
	return s
}

func isProcessOp(op string) bool { return op == "build" || op == "gc" || op == "load-only" }

func c01Exec(scAny any, c *simcheck.Ctx) *simcheck.Violation {
	sc := scAny.(*histScenario)
	if sc.Spec == nil || len(sc.Spec.Targets) == 0 {
		return nil
	}
	h, err := newHistRun(c, sc)
	if err != nil {
		return simcheck.V(simcheck.EngineError, "setup: %v", err)
	}
	defer h.cleanup()
	h.keepFailedReload = true // as Watch does: a project whose reload failed is reloaded again
	firstProcess := true
	lastGood := ""
	for i := range sc.Ops {
		op := &sc.Ops[i]
		if !isProcessOp(op.Op) {
			if op.Op == "nop" {
				continue
			}
			if err := h.edit(i, op); err != nil {
				return simcheck.V(simcheck.EngineError, "edit: %v", err)
			}
			continue
		}
		if op.Op == "build" && h.p.resolve(op.Label) == nil {
			continue // the label no longer exists after simplification
		}
		pc := h.pc
		pc.CrashAt, pc.IOErrPM = op.CrashAt, op.IOErrPM
		res := h.build(i, op, pc, nil)
		if op.IOErrPM > 0 && (res.LoadErr != nil || res.RunErr != nil) && procFailure(res) == nil {
			c.St.Count("builds_failed_under_io_errors", 1)
			firstProcess = false
			continue
		}
		if res.Sim.Crashed {
			c.St.Count("interrupted_builds", 1)
			firstProcess = false
			continue
		}
		if v := procFailure(res); v != nil {
			if v.Class == simcheck.EngineError {
				return v
			}
			c.St.Count("process_failure_"+v.Class, 1)
			return nil // crashes, deadlocks: decided by C03/C05/C06/C08
		}
		if res.LoadErr != nil && op.NetFailAt > 0 && h.w.netFaults > 0 && !firstProcess {
			c.St.Count("loads_failed_while_the_network_was_down", 1)
			continue
		}
		if res.LoadErr != nil {
			if firstProcess {
				return simcheck.V(simcheck.EngineError, "generated project does not load: %v", res.LoadErr)
			}
			c.St.Count("load_error_mid_history", 1)
			return nil
		}
		firstProcess = false
		if op.Op != "build" {
			continue
		}
		if res.RunErr != nil {
			if len(op.Fail) == 0 {
				c.St.Count("unexpected_build_error", 1)
				c.St.Count("err: "+shortErr(res.RunErr), 1)
			} else {
				c.St.Count("failing_builds", 1)
			}
			continue
		}
		if op.Dry {
			continue
		}
		c.St.Count("successful_builds_checked", 1)
		if v := h.checkCurrent(op.Label); v != nil {
			return v
		}
		lastGood = op.Label
		if op.Twice && op.FailLate && len(op.Fail) > 0 {
			// the first run of this process failed after writing half of an output
			if v := h.compareFromScratch(op.Label, fmt.Sprintf("flaky%d", i)); v != nil {
				return v
			}
		}
		if c.Tier == "thorough" && i%3 == 0 {
			if v := h.compareFromScratch(op.Label, "mid"); v != nil {
				return v
			}
		}
	}
	if lastGood != "" && sc.Ops[len(sc.Ops)-1].Op == "build" && sc.Ops[len(sc.Ops)-1].Label == lastGood && !sc.Ops[len(sc.Ops)-1].Dry {
		if v := h.compareFromScratch(lastGood, "end"); v != nil {
			return v
		}
	}
	return nil
}

func histSimplify(scAny any) []any {
	sc := scAny.(*histScenario)
	var out []any
	// drop one operation (not the last build)
	for i := len(sc.Ops) - 2; i >= 0; i-- {
		c := sc.clone()
		c.Ops = append(c.Ops[:i:i], c.Ops[i+1:]...)
		out = append(out, c)
	}
	// simplify build options
	for i := range sc.Ops {
		if sc.Ops[i].Always || sc.Ops[i].Dry || len(sc.Ops[i].Fail) > 0 || sc.Ops[i].Twice || sc.Ops[i].Reload || sc.Ops[i].Keep {
			c := sc.clone()
			c.Ops[i].Always, c.Ops[i].Dry, c.Ops[i].Fail, c.Ops[i].Twice, c.Ops[i].Reload, c.Ops[i].Keep = false, false, nil, false, false, false
			out = append(out, c)
		}
	}
	// drop a target that nothing refers to
	for i := len(sc.Spec.Targets) - 1; i >= 0; i-- {
		l := sc.Spec.Targets[i].label()
		used := false
		for j := range sc.Spec.Targets {
			for _, d := range sc.Spec.Targets[j].Deps {
				if d == l {
					used = true
				}
			}
			for _, rf := range sc.Spec.Targets[j].Refs {
				if rf.Kind == "target" && rf.Name == sc.Spec.Targets[i].Name && sc.Spec.Targets[j].Pkg == sc.Spec.Targets[i].Pkg {
					used = true
				}
			}
		}
		for _, op := range sc.Ops {
			if op.Label == l || op.Item == l {
				used = true
			}
		}
		if !used && len(sc.Spec.Targets) > 1 {
			c := sc.clone()
			c.Spec.Targets = append(c.Spec.Targets[:i:i], c.Spec.Targets[i+1:]...)
			out = append(out, c)
		}
	}
	// drop a dependency edge, a source, a generated file, a reference
	for i := range sc.Spec.Targets {
		t := &sc.Spec.Targets[i]
		for k := range t.Deps {
			c := sc.clone()
			ct := &c.Spec.Targets[i]
			ct.Deps = append(ct.Deps[:k:k], ct.Deps[k+1:]...)
			if k < len(ct.DepSpell) {
				ct.DepSpell = append(ct.DepSpell[:k:k], ct.DepSpell[k+1:]...)
			}
			out = append(out, c)
		}
		for k := range t.Sources {
			c := sc.clone()
			ct := &c.Spec.Targets[i]
			ct.Sources = append(ct.Sources[:k:k], ct.Sources[k+1:]...)
			out = append(out, c)
		}
		for k := range t.Refs {
			c := sc.clone()
			ct := &c.Spec.Targets[i]
			ct.Refs = append(ct.Refs[:k:k], ct.Refs[k+1:]...)
			// item ids of later refs shift: drop edits that name refs of this target
			var ops []opSpec
			for _, op := range c.Ops {
				if op.Op == "edit-item" && len(op.Item) > 4 && op.Item[:4] == "ref|" && splitItem(op.Item)[1] == ct.label() {
					continue
				}
				ops = append(ops, op)
			}
			c.Ops = ops
			out = append(out, c)
		}
		if t.Text != "" || t.Yields > 0 || t.Always {
			c := sc.clone()
			c.Spec.Targets[i].Text, c.Spec.Targets[i].Yields, c.Spec.Targets[i].Always = "", 0, false
			out = append(out, c)
		}
	}
	// plain process configuration
	if sc.Proc.CondAny || sc.Proc.ReadDirPerm || sc.Proc.SplitWrites {
		c := sc.clone()
		c.Proc.CondAny, c.Proc.ReadDirPerm, c.Proc.SplitWrites = false, false, false
		out = append(out, c)
	}
	return out
}

// ---------------------------------------------------------------- C02

// c02Gen: project -> full build of a label -> only no-op-class edits -> fresh load under
// other tapes -> build of the same label must execute nothing.
func c02Gen(r *rand.Rand, tier string) any {
	o := defaultGenOpts(tier)
	o.Always = false
	sc := &histScenario{Spec: genProject(r, o), Proc: genProc(r)}
	shadow := sc.clone().Spec
	rounds := 1 + r.IntN(3)
	label := pickLabel(r, shadow)
	// optional semantic prelude so that records were written by more than one process
	if r.IntN(3) == 0 {
		sc.Ops = append(sc.Ops, opSpec{Op: "build", Label: pickLabel(r, shadow)})
		op := genSemanticEdit(r, shadow, 1)
		shadow.applySpecEdit(op)
		sc.Ops = append(sc.Ops, *op)
	}
	sc.Ops = append(sc.Ops, opSpec{Op: "build", Label: label})
	for k := 0; k < rounds; k++ {
		for e := 0; e < r.IntN(4); e++ {
			op := genNoopEdit(r, shadow, label, 10*k+e+2)
			shadow.applySpecEdit(op)
			sc.Ops = append(sc.Ops, *op)
		}
		if r.IntN(5) == 0 {
			sc.Ops = append(sc.Ops, opSpec{Op: "load-only", Index: r.IntN(2) == 0})
		}
		if r.IntN(6) == 0 {
			// a collection (dawn gc) changes no build outcome either
			sc.Ops = append(sc.Ops, opSpec{Op: "gc", Index: r.IntN(2) == 0})
		}
		if r.IntN(6) == 0 {
			// a forced build (dawn build -B) of the label, or of something inside its closure:
			// everything runs again, nothing has changed, and nothing may run after it
			l := label
			if cl := shadow.closure(label); len(cl) > 0 && r.IntN(2) == 0 {
				l = cl[r.IntN(len(cl))].label()
			}
			sc.Ops = append(sc.Ops, opSpec{Op: "build", Label: l, Always: true})
			if l != label {
				sc.Ops = append(sc.Ops, opSpec{Op: "build", Label: label})
			}
		}
		if r.IntN(5) == 0 {
			// a source of the closure is unreadable during one build (which fails), then back,
			// byte for byte: nothing has changed since the last successful executions
			broken := ""
			for _, t := range shadow.closure(label) {
				for _, s := range t.Sources {
					rel := shadow.sourceRel(t, s)
					if _, ok := shadow.Files[rel]; ok && (broken == "" || r.IntN(3) == 0) {
						broken = rel
					}
				}
			}
			if broken != "" {
				sc.Ops = append(sc.Ops, opSpec{Op: "break-source", Path: broken}, opSpec{Op: "build", Label: label, Dry: r.IntN(4) == 0}, opSpec{Op: "restore-source", Path: broken})
			}
		}
		sc.Ops = append(sc.Ops, opSpec{Op: "build", Label: label, N: 1, Reload: r.IntN(5) == 0}) // N=1: the checked rebuild
	}
	return sc
}

func c02Exec(scAny any, c *simcheck.Ctx) *simcheck.Violation {
	sc := scAny.(*histScenario)
	if sc.Spec == nil || len(sc.Spec.Targets) == 0 {
		return nil
	}
	h, err := newHistRun(c, sc)
	if err != nil {
		return simcheck.V(simcheck.EngineError, "setup: %v", err)
	}
	defer h.cleanup()
	first := true
	currentLabel := "" // label whose closure is known to be fully built and unchanged since
	brokenNow := map[string]bool{}
	for i := range sc.Ops {
		op := &sc.Ops[i]
		if !isProcessOp(op.Op) {
			if op.Op == "nop" {
				continue
			}
			// an edit that is not of the no-op class for the label being watched invalidates the premise
			before := map[string]int{}
			for k, v := range h.changedSeq {
				before[k] = v
			}
			if err := h.edit(i, op); err != nil {
				return simcheck.V(simcheck.EngineError, "edit: %v", err)
			}
			if currentLabel != "" {
				for _, t := range h.p.closure(currentLabel) {
					if h.changedSeq[t.label()] != before[t.label()] {
						currentLabel = ""
						break
					}
				}
			}
			if currentLabel != "" {
				// only the edit classes the property lists keep the premise
				switch op.Op {
				case "touch", "rewrite-same", "comment", "blank", "doc", "edit-source", "wipe-module-cache":
				case "break-source":
					brokenNow[op.Path] = true
				case "restore-source":
					delete(brokenNow, op.Path)
				case "extra-global":
					if pkgInClosure(h.p, currentLabel, op.Label) {
						currentLabel = ""
					}
				case "edit-item":
					f := splitItem(op.Item)
					if f[0] != "global" || pkgInClosure(h.p, currentLabel, f[1]) {
						currentLabel = ""
					}
				default:
					currentLabel = ""
				}
			}
			continue
		}
		if op.Op == "build" && h.p.resolve(op.Label) == nil {
			continue
		}
		if op.Op == "build" && op.N == 1 && !op.Reload && !op.Keep && !op.Dry && !op.Always && currentLabel == op.Label && len(brokenNow) == 0 &&
			c.Tapes.Get(fmt.Sprintf("child%d", i)).Intn(4) == 0 {
			// "across process restarts": this rebuild is done by another OS process
			if cr, ok := h.buildInChild(i, op); ok {
				if cr.Failure != "" || cr.LoadErr != "" || cr.RunErr != "" {
					c.St.Count("child_build_failed", 1)
					return nil
				}
				c.St.Count("noop_rebuilds_checked", 1)
				forced := alwaysDownstream(h.p, op.Label)
				for _, l := range cr.Started {
					if !forced[l] {
						return simcheck.V("spurious-rebuild", "rebuilding %s in another OS process after only no-op edits executed %s (dawn's reason: %q)", op.Label, l, cr.Reasons[l])
					}
				}
				continue
			}
			c.St.Count("child_process_unavailable", 1)
		}
		res := h.build(i, op, h.pc, nil)
		if v := procFailure(res); v != nil {
			if v.Class == simcheck.EngineError {
				return v
			}
			c.St.Count("process_failure_"+v.Class, 1)
			return nil
		}
		if res.LoadErr != nil {
			if first {
				return simcheck.V(simcheck.EngineError, "generated project does not load: %v", res.LoadErr)
			}
			c.St.Count("load_error_mid_history", 1)
			return nil
		}
		first = false
		if op.Op != "build" {
			continue
		}
		if res.RunErr != nil {
			if len(brokenNow) > 0 {
				// the build over an unreadable source fails; it must not have executed anything
				// either, and leaves the premise as it was
				c.St.Count("builds_over_an_unreadable_source", 1)
				if currentLabel == op.Label {
					forced := alwaysDownstream(h.p, op.Label)
					for _, l := range h.startsIn(i) {
						if !forced[l] {
							return simcheck.V("spurious-rebuild", "a build of %s that failed on an unreadable source executed %s although nothing had changed", op.Label, l)
						}
					}
				}
				continue
			}
			c.St.Count("unexpected_build_error", 1)
			return nil
		}
		if op.Dry {
			continue
		}
		if currentLabel == op.Label && !op.Always {
			c.St.Count("noop_rebuilds_checked", 1)
			always := alwaysDownstream(h.p, op.Label)
			for _, l := range h.startsIn(i) {
				if !always[l] {
					reason := ""
					for _, e := range h.w.events {
						if e.Kind == "TargetEvaluating" && e.Label == l {
							reason = e.Text
						}
					}
					return simcheck.V("spurious-rebuild", "rebuilding %s after only no-op edits executed %s (dawn's reason: %q)", op.Label, l, reason)
				}
			}
		}
		currentLabel = op.Label
	}
	return nil
}

// alwaysDownstream: the always=True targets of the closure and everything downstream of
// them (which may execute in every build).
func alwaysDownstream(p *projSpec, label string) map[string]bool {
	always := map[string]bool{}
	for _, t := range p.closure(label) {
		if t.Always {
			always[t.label()] = true
		}
	}
	changed := true
	for changed {
		changed = false
		for _, t := range p.closure(label) {
			if always[t.label()] {
				continue
			}
			for _, d := range p.directDeps(t) {
				if always[d.label()] {
					always[t.label()] = true
					changed = true
				}
			}
		}
	}
	return always
}

func pkgInClosure(p *projSpec, label, pkg string) bool {
	for _, t := range p.closure(label) {
		if t.Pkg == pkg {
			return true
		}
	}
	return false
}
