package dawn

// C15 — decoding arbitrary bytes yields a value or an error, never a crash.
// Two media: (records) every single-byte corruption / truncation of the persisted record
// files of a built project, followed by a load and a build; (stream) every single-byte
// corruption / truncation / short-read delivery / seeded garbage of valid environment
// encodings handed to the decoder through its io.Reader seam.

import (
	"bytes"
	"encoding/base64"
	"encoding/json"
	"fmt"
	"io"
	"math/rand/v2"
	"net/url"
	"os"
	"path/filepath"
	"reflect"
	"sort"
	"strings"
	"time"

	"github.com/pgavlin/dawn/pickle"
	"go.starlark.net/starlark"
	"verif.local/sim/simcheck"
	"verif.local/sim/simrt"
)

func c15Gen(r *rand.Rand, tier string) any {
	o := genOpts{MaxTargets: 4, MaxMods: 2, BigValues: false, Flags: false, GenSources: true}
	sc := &histScenario{Spec: genProject(r, o), Proc: genProc(r)}
	sc.Proc.Strategy = simrt.StratFIFO
	sc.Proc.SplitWrites = false
	if r.IntN(2) == 0 {
		// one source file named from two modules: its (damaged) record is read while the other
		// module may be asking for the same source
		p := sc.Spec
		for a := range p.Targets {
			for b := range p.Targets {
				ta, tb := &p.Targets[a], &p.Targets[b]
				if ta.Pkg == tb.Pkg || len(ta.Sources) == 0 {
					continue
				}
				full := p.sourceRel(ta, ta.Sources[0])
				if c, ok := p.Files[full]; !ok || strings.HasPrefix(c, linkMark) {
					continue
				}
				if rel, err := filepath.Rel("/"+pkgDir(tb.Pkg), "/"+full); err == nil {
					tb.Sources = append(tb.Sources, rel)
				}
				goto shared
			}
		}
	shared:
	}
	if r.IntN(5) == 0 && len(sc.Spec.Targets) > 0 {
		// a legal value that is small to encode and astronomically large to walk
		t := &sc.Spec.Targets[r.IntN(len(sc.Spec.Targets))]
		t.Refs = append(t.Refs, refSpec{Kind: "dag", Val: valueSpec{Kind: "int", V: r.IntN(40)}})
	}
	shadow := sc.clone().Spec
	label := pickLabel(r, shadow)
	sc.Ops = append(sc.Ops, opSpec{Op: "build", Label: label})
	if r.IntN(2) == 0 {
		// an edit, so that some target is out of date when its record is corrupted
		op := genSemanticEdit(r, shadow, 1)
		if op.Op != "add-dep" && op.Op != "remove-dep" {
			shadow.applySpecEdit(op)
			sc.Ops = append(sc.Ops, *op)
		}
	}
	if r.IntN(3) == 0 {
		// the build before the corruption is interrupted: some records carry the mark "must
		// re-run" and nothing else says so
		sc.Ops = append(sc.Ops, opSpec{Op: "build", Label: label, Always: true, CrashAt: 40 + r.IntN(220)})
	}
	sc.Ops = append(sc.Ops, opSpec{Op: "build", Label: label})
	sc.Mode = []string{"records", "records", "stream"}[r.IntN(3)]
	return sc
}

// recordLabel maps a record file (relative to .dawn/build) to the label events carry for it;
// "" if the name does not look like one (the harness does not otherwise rely on the scheme).
func recordLabel(file string) string {
	kind, rest, ok := strings.Cut(file, "/")
	if !ok || (kind != "targets" && kind != "sources") {
		return ""
	}
	name, err := url.PathUnescape(rest)
	if err != nil {
		return ""
	}
	i := strings.LastIndexByte(name, '/')
	if i < 0 {
		return ""
	}
	lbl := "//" + strings.TrimPrefix(name[:i], "/") + ":" + name[i+1:]
	if kind == "sources" {
		lbl = "source:" + lbl
	}
	return lbl
}

// semanticDamage: both byte strings are JSON objects and they differ as such (key case does
// not count: encoding/json matches field names without regard to case).
func semanticDamage(intact, damaged []byte) bool {
	var a, b map[string]any
	if json.Unmarshal(intact, &a) != nil || json.Unmarshal(damaged, &b) != nil {
		return false
	}
	lower := func(m map[string]any) map[string]any {
		out := map[string]any{}
		for k, v := range m {
			out[strings.ToLower(k)] = v
		}
		return out
	}
	return !reflect.DeepEqual(lower(a), lower(b))
}

// nearRerun: offset off lies in the field that marks an interrupted target.
func nearRerun(data []byte, off int) bool {
	i := bytes.Index(data, []byte(`"rerun":true`))
	return i >= 0 && off >= i && off < i+len(`"rerun":true`)
}

var corruptMasks = []int{0x01, 0x80, -2, -3, 0x20} // xor 1, xor 0x80, set 0x00, set 0xff, ascii case flip

type corruption struct {
	File string
	Off  int
	Mask int // index into corruptMasks, -1 = truncate to Off bytes, -2 = seeded multi-byte garbage (Off = variant)
	Gar  []int
}

func applyCorruption(data []byte, c corruption) []byte {
	if c.Mask == -2 {
		out := append([]byte{}, data...)
		for i := 0; i+1 < len(c.Gar); i += 2 {
			out[c.Gar[i]%len(out)] = byte(c.Gar[i+1])
		}
		return out
	}
	if c.Mask < 0 {
		return append([]byte{}, data[:c.Off]...)
	}
	out := append([]byte{}, data...)
	switch m := corruptMasks[c.Mask]; m {
	case -2:
		out[c.Off] = 0x00
	case -3:
		out[c.Off] = 0xff
	default:
		out[c.Off] ^= byte(m)
	}
	return out
}

// lengthsWithinInput walks the opcode framing of a pickle stream and reports whether every
// declared string/bytes length fits in the remaining input (the bound the property states:
// the decoder pre-allocates what a length field says).
func lengthsWithinInput(b []byte) bool {
	i := 0
	for i < len(b) {
		op := b[i]
		i++
		switch op {
		case '.':
			return true
		case 'h', 'K', 0x8c, 'C':
			if i >= len(b) {
				return true
			}
			n := int(b[i])
			i++
			if op == 0x8c || op == 'C' {
				i += n
			}
		case 'M':
			i += 2
		case 'j', 'J':
			i += 4
		case 'G':
			i += 8
		case 'I':
			for i < len(b) && b[i] != '\n' {
				i++
			}
			i++
		case 'X', 'B':
			if i+4 > len(b) {
				return true
			}
			n := int(uint32(b[i]) | uint32(b[i+1])<<8 | uint32(b[i+2])<<16 | uint32(b[i+3])<<24)
			i += 4
			if n > len(b)-i {
				return false
			}
			i += n
		case '(', 0x94, 'N', 0x88, 0x89, ']', 'a', 'e', ')', 0x85, 0x86, 0x87, 't', '}', 'u', 0x8f, 0x90, 0x93, 0x81:
		default:
			return true // unknown opcode: the decoder stops here
		}
	}
	return true
}

// recordWithinBound undoes the JSON and base64 layers of a (possibly corrupted) record file.
func recordWithinBound(data []byte) bool {
	var info struct {
		Stamp string `json:"stamp"`
	}
	if json.Unmarshal(data, &info) != nil || info.Stamp == "" {
		return true
	}
	raw, err := base64.StdEncoding.DecodeString(info.Stamp)
	if err != nil {
		// a streaming decoder would still hand the valid prefix to the unpickler
		n := 0
		for n < len(info.Stamp) {
			ch := info.Stamp[n]
			if !(ch >= 'A' && ch <= 'Z' || ch >= 'a' && ch <= 'z' || ch >= '0' && ch <= '9' || ch == '+' || ch == '/') {
				break
			}
			n++
		}
		raw, _ = base64.StdEncoding.DecodeString(info.Stamp[:n-n%4])
	}
	return lengthsWithinInput(raw)
}

type chunkReader struct {
	data []byte
	n    int
}

func (r *chunkReader) Read(p []byte) (int, error) {
	if len(r.data) == 0 {
		return 0, io.EOF
	}
	n := r.n
	if n > len(p) {
		n = len(p)
	}
	if n > len(r.data) {
		n = len(r.data)
	}
	copy(p, r.data[:n])
	r.data = r.data[n:]
	return n, nil
}

// decodeOutcome hands bytes to the real decoder (with dawn's unpickler) and classifies.
func decodeOutcome(data []byte, chunk int) *simcheck.Violation {
	done := make(chan *simcheck.Violation, 1)
	go func() { done <- decodeOutcome1(data, chunk) }()
	select {
	case v := <-done:
		return v
	case <-time.After(15 * time.Second):
	}
	// A few kilobytes decode in microseconds; fifteen seconds mean the decoder spins - or that
	// this process did not get the CPU (a machine shared with other jobs). To tell the two
	// apart the same bytes are decoded once more, by another goroutine, with 75 more seconds
	// for either of them.
	again := make(chan *simcheck.Violation, 1)
	go func() { again <- decodeOutcome1(data, chunk) }()
	select {
	case v := <-done:
		return v
	case v := <-again:
		return v
	case <-time.After(75 * time.Second):
		return &simcheck.Violation{Class: "decode-hang", Msg: fmt.Sprintf("decoding %d bytes did not return within 90 s, nor did a second attempt within 75 s (input %x...)", len(data), data[:min(len(data), 48)]), Fatal: true}
	}
}

func decodeOutcome1(data []byte, chunk int) (v *simcheck.Violation) {
	defer func() {
		if r := recover(); r != nil {
			v = simcheck.V("decode-panic", "decoding %d bytes panicked: %v (input %x...)", len(data), r, data[:min(len(data), 48)])
		}
	}()
	var rd io.Reader = bytes.NewReader(data)
	if chunk > 0 {
		rd = &chunkReader{data: data, n: chunk}
	}
	val, err := pickle.NewDecoder(rd, pickle.UnpicklerFunc(envUnpickler)).Decode()
	if err == nil && val == nil {
		return simcheck.V("decode-nothing", "decoding returned no value and no error (input %d bytes: %x...)", len(data), data[:min(len(data), 64)])
	}
	if err == nil {
		// a well-formed value can be traversed: printing it visits every element, and a Go nil
		// smuggled into a container makes that panic
		if bad := wellFormed(val, map[starlark.Value]bool{}); bad != "" {
			return simcheck.V("decode-malformed", "decoding returned a malformed value without an error: %s (input %d bytes: %x...)", bad, len(data), data[:min(len(data), 64)])
		}
	}
	return nil
}

// switchReader hands a decoder one byte string after another: end of input in between.
type switchReader struct {
	parts [][]byte
	cur   int
}

func (r *switchReader) Read(p []byte) (int, error) {
	if r.cur >= len(r.parts) || len(r.parts[r.cur]) == 0 {
		return 0, io.EOF
	}
	n := copy(p, r.parts[r.cur])
	r.parts[r.cur] = r.parts[r.cur][n:]
	return n, nil
}

// decodeReuse hands several byte strings in turn to ONE decoder: whatever the earlier ones
// did to it, each Decode returns a well-formed value or an error.
func decodeReuse(parts [][]byte) *simcheck.Violation {
	done := make(chan *simcheck.Violation, 1)
	go func() {
		var v *simcheck.Violation
		defer func() {
			if r := recover(); r != nil {
				v = simcheck.V("decode-panic", "a decoder that is handed %d byte strings in turn panicked: %v", len(parts), r)
			}
			done <- v
		}()
		cp := make([][]byte, len(parts))
		for i := range parts {
			cp[i] = append([]byte{}, parts[i]...)
		}
		rd := &switchReader{parts: cp}
		dec := pickle.NewDecoder(rd, pickle.UnpicklerFunc(envUnpickler))
		for i := range parts {
			rd.cur = i
			val, err := dec.Decode()
			if err == nil && val == nil {
				v = simcheck.V("decode-nothing", "byte string %d handed to one decoder (%x after %x...): no value and no error", i, parts[i][:min(len(parts[i]), 16)], parts[0][:min(len(parts[0]), 48)])
				return
			}
			if err == nil {
				if bad := wellFormed(val, map[starlark.Value]bool{}); bad != "" {
					v = simcheck.V("decode-malformed", "byte string %d handed to one decoder (%x after %x...): malformed value without an error: %s", i, parts[i][:min(len(parts[i]), 16)], parts[0][:min(len(parts[0]), 48)], bad)
					return
				}
			}
		}
	}()
	select {
	case v := <-done:
		return v
	case <-time.After(90 * time.Second):
		return &simcheck.Violation{Class: "decode-hang", Msg: "a reused decoder did not return within 90 s", Fatal: true}
	}
}

// short second pickles that lean on what an earlier Decode left behind
var reuseTails = [][]byte{[]byte("."), []byte("h\x00."), []byte("\x86."), []byte("]h\x00a."), []byte("}h\x00h\x00s."), []byte("\x8fh\x00\x85\x90.")}

func typeName(v starlark.Value) string {
	if v == nil {
		return "nil"
	}
	return v.Type()
}

// wellFormed walks a decoded value and reports a nil element or a value that cannot be printed.
func wellFormed(v starlark.Value, seen map[starlark.Value]bool) (bad string) {
	if v == nil {
		return "a nil element"
	}
	defer func() {
		if r := recover(); r != nil {
			bad = fmt.Sprintf("traversing it panics: %v", r)
		}
	}()
	switch x := v.(type) {
	case starlark.Tuple:
		for _, e := range x {
			if b := wellFormed(e, seen); b != "" {
				return b
			}
		}
	case *starlark.List:
		if seen[x] {
			return ""
		}
		seen[x] = true // decoded values may be shared or self-referential
		for i := 0; i < x.Len(); i++ {
			if b := wellFormed(x.Index(i), seen); b != "" {
				return b
			}
		}
	case *starlark.Dict:
		if seen[x] {
			return ""
		}
		seen[x] = true
		for _, kv := range x.Items() {
			if b := wellFormed(kv[0], seen); b != "" {
				return b
			}
			if b := wellFormed(kv[1], seen); b != "" {
				return b
			}
		}
	case *starlark.Set:
		if seen[x] {
			return ""
		}
		seen[x] = true
		for _, e := range x.Elems() {
			if b := wellFormed(e, seen); b != "" {
				return b
			}
		}
	default:
		_ = v.Type()
	}
	return ""
}

func c15Exec(scAny any, c *simcheck.Ctx) *simcheck.Violation {
	sc := scAny.(*histScenario)
	if sc.Spec == nil || len(sc.Ops) < 2 || sc.Ops[len(sc.Ops)-1].Op != "build" {
		return nil
	}
	h, err := newHistRun(c, sc)
	if err != nil {
		return simcheck.V(simcheck.EngineError, "setup: %v", err)
	}
	defer h.cleanup()
	last := len(sc.Ops) - 1
	final := &sc.Ops[last]
	var interrupted []string // bodies that had started when the previous build was killed
	for i := 0; i < last; i++ {
		op := &sc.Ops[i]
		if !isProcessOp(op.Op) {
			if op.Op != "nop" {
				if err := h.edit(i, op); err != nil {
					return simcheck.V(simcheck.EngineError, "edit: %v", err)
				}
			}
			continue
		}
		if op.Op == "build" && h.p.resolve(op.Label) == nil {
			return nil
		}
		pc := h.pc
		pc.WatchdogS = 90 // (real time; generous, because the machine may be shared with other jobs)
		if op.CrashAt > 0 {
			// place the kill inside a body: run the build once to see where the bodies are,
			// put the tree back, and run it again (same tapes) up to one of those steps
			snap0, err := h.snapshot()
			if err != nil {
				return simcheck.V(simcheck.EngineError, "snapshot: %v", err)
			}
			var bodySteps []int
			saved := c.Tapes
			probe := h.buildNamed(fmt.Sprintf("op%d", i), i, op, pc, func(step int, kind, detail string) {
				if strings.HasPrefix(kind, "body") {
					bodySteps = append(bodySteps, step)
				}
			})
			used := map[string]simrt.TapeData{}
			for _, suffix := range []string{".sched", ".misc", ".fault", ".chunks"} {
				used[fmt.Sprintf("op%d", i)+suffix] = c.Tapes.Get(fmt.Sprintf("op%d", i) + suffix).Used()
			}
			rerr := h.restore(snap0)
			os.RemoveAll(snap0.dir)
			if rerr != nil || procFailure(probe) != nil || len(bodySteps) == 0 {
				c.St.Count("prefix_failed", 1)
				return nil
			}
			pc.CrashAt = bodySteps[op.CrashAt%len(bodySteps)]
			c.Tapes = simrt.NewTapeSet(0, used)
			res := h.buildNamed(fmt.Sprintf("op%d", i), i, op, pc, nil)
			c.Tapes = saved
			if res.Sim.Crashed {
				c.St.Count("interrupted_build_before_the_corruption", 1)
				interrupted = h.unfinished(i)
				if len(interrupted) > 0 {
					c.St.Count("builds_killed_inside_a_body_before_the_corruption", 1)
				}
				continue
			}
			c.St.Count("prefix_failed", 1)
			return nil
		}
		res := h.build(i, op, pc, nil)
		if res.Sim.Crashed {
			c.St.Count("interrupted_build_before_the_corruption", 1)
			interrupted = h.unfinished(i)
			if len(interrupted) > 0 {
				c.St.Count("builds_killed_inside_a_body_before_the_corruption", 1)
			}
			continue
		}
		if res.Sim.Stuck {
			v := simcheck.V("decode-hang", "building the intact project did not finish within 90 s of real time: encoding or decoding a legal value does not terminate")
			v.Fatal = true
			return v
		}
		if procFailure(res) != nil || res.LoadErr != nil || res.RunErr != nil {
			c.St.Count("prefix_failed", 1)
			return nil
		}
	}
	if h.p.resolve(final.Label) == nil {
		return nil
	}
	narrow := func(v *simcheck.Violation, idx int) *simcheck.Violation {
		n := sc.clone()
		n.Only = &idx
		v.Scenario = n
		return v
	}
	// the artefacts: record files and the index
	var files []string
	recs := recordFiles(h.w.root)
	for n := range recs {
		files = append(files, n)
	}
	sort.Strings(files)

	if sc.Mode == "stream" {
		idx := 0
		for _, f := range files {
			var info struct {
				Stamp string `json:"stamp"`
			}
			if json.Unmarshal(recs[f], &info) != nil || info.Stamp == "" {
				continue
			}
			raw, err := base64.StdEncoding.DecodeString(info.Stamp)
			if err != nil || len(raw) < 8 {
				continue
			}
			c.St.Count("streams", 1)
			try := func(data []byte, chunk int, what string) *simcheck.Violation {
				idx++
				if sc.Only != nil && *sc.Only != idx {
					return nil
				}
				if !lengthsWithinInput(data) {
					c.St.Count("skipped_declared_length_exceeds_input", 1)
					return nil
				}
				c.St.Count("decodes", 1)
				c.St.Faults[what]++
				c.St.AddDistinct(simrt.MixString(uint64(chunk), string(data)))
				if v := decodeOutcome(data, chunk); v != nil {
					v.Msg = what + ": " + v.Msg
					return narrow(v, idx)
				}
				return nil
			}
			// the valid stream itself, in 1-byte and 3-byte reads
			for _, ch := range []int{0, 1, 3} {
				if v := try(raw, ch, "short_reads"); v != nil {
					return v
				}
			}
			// every byte value at every offset (thorough), a stride of offsets (quick)
			stride := 1
			if c.Tier != "thorough" && len(raw) > 96 {
				stride = len(raw)/96 + 1
			}
			for off := c.Tapes.Get("substride").Intn(stride); off < len(raw); off += stride {
				sub := append([]byte{}, raw...)
				for b := 0; b < 256; b++ {
					if byte(b) == raw[off] {
						continue
					}
					sub[off] = byte(b)
					if v := try(append([]byte{}, sub...), 0, "stream_byte_substitution"); v != nil {
						return v
					}
				}
			}
			for off := 0; off < len(raw); off++ {
				for m := range corruptMasks {
					if v := try(applyCorruption(raw, corruption{Off: off, Mask: m}), 0, "stream_byte_flip"); v != nil {
						return v
					}
				}
				if v := try(raw[:off], 0, "stream_eof"); v != nil {
					return v
				}
				if off%5 == 0 {
					// one decoder, the truncated stream, then a tail, then the intact stream
					idx++
					if sc.Only == nil || *sc.Only == idx {
						c.St.Count("decodes", 3)
						c.St.Faults["decoder_reused_after_failure"]++
						tail := reuseTails[(off/5)%len(reuseTails)]
						if v := decodeReuse([][]byte{raw[:off], tail, raw}); v != nil {
							return narrow(v, idx)
						}
					}
				}
				if off%7 == 0 {
					if v := try(applyCorruption(raw, corruption{Off: off, Mask: 0}), 1, "stream_byte_flip_short_reads"); v != nil {
						return v
					}
				}
			}
			// seeded multi-byte garbage
			t := c.Tapes.Get("garbage")
			for k := 0; k < 64; k++ {
				g := append([]byte{}, raw...)
				for j := 0; j < 2+t.Intn(6); j++ {
					g[t.Intn(len(g))] = byte(t.Intn(256))
				}
				if v := try(g, 0, "stream_garbage"); v != nil {
					return v
				}
			}
		}
		return nil
	}

	// records mode
	files = append(files, "index.json")
	if b, err := os.ReadFile(filepath.Join(h.w.root, ".dawn", "build", "index.json")); err == nil {
		recs["index.json"] = b
	}
	var list []corruption
	for _, f := range files {
		data := recs[f]
		stride := 1
		if c.Tier != "thorough" && len(data) > 120 && !bytes.Contains(data, []byte(`"rerun":true`)) {
			// (the record of an interrupted target is covered byte by byte: few exist)
			stride = len(data)/120 + 1
		}
		start := c.Tapes.Get("stride").Intn(stride)
		for off := start; off < len(data); off += stride {
			for m := range corruptMasks {
				if off%len(corruptMasks) == m || c.Tier == "thorough" || len(data) <= 120 || (stride == 1 && nearRerun(data, off)) {
					list = append(list, corruption{File: f, Off: off, Mask: m})
				}
			}
			list = append(list, corruption{File: f, Off: off, Mask: -1})
		}
		if len(data) > 4 {
			gt := c.Tapes.Get("record-garbage")
			for k := 0; k < 6; k++ {
				var g []int
				for j := 0; j < 2+gt.Intn(5); j++ {
					g = append(g, gt.Intn(len(data)), gt.Intn(256))
				}
				list = append(list, corruption{File: f, Off: k, Mask: -2, Gar: g})
			}
		}
	}
	snap, err := h.snapshot()
	if err != nil {
		return simcheck.V(simcheck.EngineError, "snapshot: %v", err)
	}
	defer os.RemoveAll(snap.dir)
	keptProj := h.lastProj
	for idx, cr := range list {
		if sc.Only != nil && *sc.Only != idx {
			continue
		}
		if err := h.restore(snap); err != nil {
			return simcheck.V(simcheck.EngineError, "restore: %v", err)
		}
		data := applyCorruption(recs[cr.File], cr)
		if bytes.Equal(data, recs[cr.File]) {
			continue
		}
		if cr.File != "index.json" && !recordWithinBound(data) {
			c.St.Count("skipped_declared_length_exceeds_input", 1)
			continue
		}
		if err := os.WriteFile(filepath.Join(h.w.root, ".dawn", "build", cr.File), data, 0644); err != nil {
			return simcheck.V(simcheck.EngineError, "write: %v", err)
		}
		if os.Getenv("VERIF_DEBUG_C15") != "" {
			fmt.Fprintf(os.Stderr, "C15 corruption %d of %s at %d:\n  before: %s\n  after:  %s\n", idx, cr.File, cr.Off, recs[cr.File], data)
		}
		kind := "record_byte_flip"
		if cr.Mask == -1 {
			kind = "record_truncation"
		} else if cr.Mask == -2 {
			kind = "record_multi_byte_garbage"
		}
		c.St.Faults[kind]++
		what := fmt.Sprintf("record %s corrupted (%s at offset %d)", cr.File, kind, cr.Off)
		rerunRec := bytes.Contains(recs[cr.File], []byte(`"rerun":true`))
		kept := keptProj // the project the last intact build left loaded (watch mode, the REPL)
		for variant, preferIndex := range []bool{false, true, false, false} {
			// variant 3: the record is damaged while a process holds the project loaded; that
			// process reloads and builds (a tenth of the corruptions)
			reload := variant == 3
			if reload && (kept == nil || idx%10 != 3) {
				continue
			}
			if reload {
				if err := h.restore(snap); err != nil {
					return simcheck.V(simcheck.EngineError, "restore: %v", err)
				}
				if err := os.WriteFile(filepath.Join(h.w.root, ".dawn", "build", cr.File), data, 0644); err != nil {
					return simcheck.V(simcheck.EngineError, "write: %v", err)
				}
				h.lastProj = kept
				c.St.Count("reloads_of_a_loaded_project_over_a_damaged_record", 1)
			}
			if preferIndex && cr.File != "index.json" && idx%4 != 0 {
				continue
			}
			// variant 2: an invocation that only loads comes between the corruption and the build
			// (always tried for the record of an interrupted target, else for a third)
			preload := variant == 2
			if preload && !rerunRec && idx%3 != 2 {
				continue
			}
			if preload {
				if err := h.restore(snap); err != nil {
					return simcheck.V(simcheck.EngineError, "restore: %v", err)
				}
				if err := os.WriteFile(filepath.Join(h.w.root, ".dawn", "build", cr.File), data, 0644); err != nil {
					return simcheck.V(simcheck.EngineError, "write: %v", err)
				}
			}
			op := *final
			op.Index = preferIndex
			op.Reload = reload
			pc := h.pc
			pc.WatchdogS = 90
			if idx%3 == 1 {
				// loaders and targets interleave freely while the damaged record is read
				pc.Strategy = simrt.StratUniform
			}
			if preload {
				// another invocation comes first that loads the project without building the
				// label (dawn targets, the REPL, a build of something else): whatever it
				// reports, it must not make the damaged record look sound
				pre := h.build(10000+idx, &opSpec{Op: "load-only"}, pc, nil)
				if pre.Sim.Stuck {
					v := narrow(simcheck.V("corrupt-record-hang", "%s: loading did not finish within 90 s of real time", what), idx)
					v.Fatal = true
					return v
				}
				if v := procFailure(pre); v != nil {
					if v.Class == simcheck.EngineError {
						return v
					}
					v.Class = "corrupt-record-" + v.Class
					v.Msg = what + " (load only): " + v.Msg
					return narrow(v, idx)
				}
				c.St.Count("loads_without_a_build_between_corruption_and_build", 1)
				what += ", then a load without a build"
			}
			ev0 := len(h.w.events)
			res := h.build(last, &op, pc, nil)
			if res.Sim.Stuck {
				v := narrow(simcheck.V("corrupt-record-hang", "%s: loading and building did not finish within 90 s of real time (the uncorrupted project takes milliseconds)", what), idx)
				v.Fatal = true
				return v
			}
			if v := procFailure(res); v != nil {
				if v.Class == simcheck.EngineError {
					return v
				}
				v.Class = "corrupt-record-" + v.Class
				v.Msg = what + ": " + v.Msg
				return narrow(v, idx)
			}
			switch {
			case res.LoadErr != nil:
				c.St.Count("reported_as_load_error", 1)
			case res.RunErr != nil:
				c.St.Count("reported_as_build_error", 1)
			case preferIndex:
				// an index-only load builds nothing; it only has to load
			default:
				c.St.Count("built_despite_corruption", 1)
				// "never as a target silently treated as up to date": a record whose content (as
				// JSON, keys compared without case) is no longer what was written must not leave
				// its target reported up to date without any error
				if lbl := recordLabel(cr.File); lbl != "" && semanticDamage(recs[cr.File], data) {
					upToDate, evaluated := false, false
					for _, e := range h.w.events[ev0:] {
						if e.Label == lbl {
							upToDate = upToDate || e.Kind == "TargetUpToDate"
							evaluated = evaluated || e.Kind == "TargetEvaluating" || e.Kind == "TargetFailed"
						}
					}
					if upToDate && !evaluated {
						return narrow(simcheck.V("corrupt-record-silently-up-to-date", "%s: the damaged record no longer says what was written, yet load and build reported no error and %s was reported up to date", what, lbl), idx)
					}
					c.St.Count("semantically_damaged_records_that_built", 1)
				}
				if v := h.checkCurrent(final.Label); v != nil {
					v.Msg = what + ": " + v.Msg
					v.Class = "corrupt-record-" + v.Class
					return narrow(v, idx)
				}
				started := map[string]bool{}
				for _, l := range h.startsIn(last) {
					started[l] = true
				}
				inClosure := map[string]bool{}
				for _, t := range h.p.closure(final.Label) {
					inClosure[t.label()] = true
				}
				for _, l := range interrupted {
					if inClosure[l] && !started[l] {
						return narrow(simcheck.V("corrupt-record-unfinished-not-rerun", "%s: the previous build was killed while the body of %s was running; the build after the corruption reported success without running it again", what, l), idx)
					}
				}
			}
		}
	}
	return nil
}
