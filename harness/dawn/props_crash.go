package dawn

// C03 — failed and interrupted builds are recoverable. For a sampled (project, history,
// schedule): crash at every persistent-effect boundary of the last build (and inside
// writes), fail bodies in every pattern, fail every I/O operation; after each, the state
// must load, the next build must re-execute what did not complete and converge to the
// uninterrupted result.

import (
	"bytes"
	"fmt"
	"math/bits"
	"math/rand/v2"
	"os"
	"path/filepath"
	"sort"
	"strings"

	"verif.local/sim/simcheck"
	"verif.local/sim/simrt"
)

func c03Gen(r *rand.Rand, tier string) any {
	o := genOpts{MaxTargets: 5, MaxMods: 2, BigValues: false, Flags: false, Always: true, GenSources: true, Exts: 20}
	if tier == "thorough" {
		o.MaxTargets = 7
	}
	sc := &histScenario{Spec: genProject(r, o), Proc: genProc(r)}
	sc.Proc.Strategy = []int{simrt.StratUniform, simrt.StratSticky, simrt.StratFIFO, simrt.StratRoundRobin}[r.IntN(4)]
	shadow := sc.clone().Spec
	sc.Mode = []string{"crash", "crash", "crash", "fail", "fail", "ioerr", "compose", "crash-revert", "diskfull", "crash-unalways"}[r.IntN(10)]
	if sc.Mode == "fail" && r.IntN(4) == 0 {
		// watch mode: x fails while its sibling y is still busy, the build fails, a source of y
		// is edited right after the build returned and the same process builds again
		if tl, xl, files := shapeOverlap(r, shadow, sc.Spec); tl != "" && len(files) > 0 {
			ed := opSpec{Op: "edit-source", Path: files[r.IntN(len(files))], N: 1000}
			sc.Mode = "fail-then-edit"
			sc.Ops = append(sc.Ops, opSpec{Op: "build", Label: tl}, opSpec{Op: "build", Label: tl, Fail: []string{xl}, Always: true, Twice: true, Between: &ed})
			return sc
		}
	}
	if sc.Mode == "crash-unalways" {
		// an always=True target is interrupted; always= is then removed (it is not part of the
		// function's environment, so nothing else about the target changes)
		if len(shadow.Targets) == 0 {
			sc.Mode = "crash"
		} else {
			k := r.IntN(len(shadow.Targets))
			shadow.Targets[k].Always, sc.Spec.Targets[k].Always = true, true
			label := pickLabel(r, shadow)
			if r.IntN(3) != 0 {
				label = shadow.Targets[k].label()
			}
			sc.Ops = append(sc.Ops, opSpec{Op: "build", Label: label}, opSpec{Op: "build", Label: label})
			return sc
		}
	}
	if sc.Mode == "crash-revert" {
		// full build, one item edit, interrupted rebuild
		label := pickLabel(r, shadow)
		items := shadow.semanticItems()
		if r.IntN(2) == 0 {
			// an edit of the dependency SET (a glob gains a file, a dependency edge is added),
			// undone after the interrupted rebuild: the tree is then exactly what it was
			var eds []opSpec
			for _, t := range shadow.closure(label) {
				for _, g := range t.GlobDirs {
					eds = append(eds, opSpec{Op: "dir-add", Path: shadow.sourceRel(t, g), N: 7})
				}
				for _, o := range shadow.closure(label) {
					if o != t && !shadow.reaches(o, t) && !t.ReadsDeps {
						has := false
						for _, d := range t.Deps {
							has = has || d == o.label()
						}
						if !has {
							eds = append(eds, opSpec{Op: "add-dep", Label: t.label(), Item: o.label()})
						}
					}
				}
			}
			if len(eds) > 0 {
				sc.Ops = append(sc.Ops, opSpec{Op: "build", Label: label}, eds[r.IntN(len(eds))], opSpec{Op: "build", Label: label})
				return sc
			}
		}
		if len(items) > 0 {
			sc.Ops = append(sc.Ops, opSpec{Op: "build", Label: label})
			sc.Ops = append(sc.Ops, opSpec{Op: "edit-item", Item: items[r.IntN(len(items))], N: 1 + r.IntN(3)})
			sc.Ops = append(sc.Ops, opSpec{Op: "build", Label: label})
			return sc
		}
		sc.Mode = "crash"
	}
	if sc.Mode == "fail" && r.IntN(3) != 0 {
		// a full build, then edits, then the same label again with failing bodies: the failed
		// targets have dependents whose records date from the first build
		label := pickLabel(r, shadow)
		sc.Ops = append(sc.Ops, opSpec{Op: "build", Label: label})
		for k := 0; k < 1+r.IntN(2); k++ {
			op := genSemanticEdit(r, shadow, k+1)
			if r.IntN(2) == 0 {
				var files []string
				for f := range shadow.Files {
					files = append(files, f)
				}
				sort.Strings(files)
				if len(files) > 0 {
					op = &opSpec{Op: "edit-source", Path: files[r.IntN(len(files))], N: k + 1}
				}
			}
			shadow.applySpecEdit(op)
			sc.Ops = append(sc.Ops, *op)
		}
		sc.Ops = append(sc.Ops, opSpec{Op: "build", Label: label})
		return sc
	}
	// an optional prefix so that the interrupted build is an incremental one
	if r.IntN(2) == 0 {
		sc.Ops = append(sc.Ops, opSpec{Op: "build", Label: pickLabel(r, shadow)})
		for k := 0; k < 1+r.IntN(2); k++ {
			op := genSemanticEdit(r, shadow, k+1)
			shadow.applySpecEdit(op)
			sc.Ops = append(sc.Ops, *op)
		}
	}
	sc.Ops = append(sc.Ops, opSpec{Op: "build", Label: pickLabel(r, shadow), Always: r.IntN(4) == 0})
	return sc
}

type snapshot struct {
	dir    string
	logLen int
	evLen  int
	seq    int
}

func (h *histRun) snapshot() (*snapshot, error) {
	dir := h.w.root + ".snap"
	os.RemoveAll(dir)
	if err := copyTree(h.w.root, dir, nil); err != nil {
		return nil, err
	}
	if len(h.p.Exts) > 0 {
		// the module cache (and whatever an interrupted fetch left in the temp directory) is
		// state that survives a process too
		os.RemoveAll(dir + ".home")
		if err := copyTree(h.w.home, dir+".home", nil); err != nil {
			return nil, err
		}
	}
	return &snapshot{dir: dir, logLen: len(h.w.log), evLen: len(h.w.events), seq: h.w.seq}, nil
}

func (h *histRun) restore(s *snapshot) error {
	os.RemoveAll(h.w.root)
	if err := copyTree(s.dir, h.w.root, nil); err != nil {
		return err
	}
	if _, err := os.Stat(s.dir + ".home"); err == nil {
		os.RemoveAll(h.w.home)
		if err := copyTree(s.dir+".home", h.w.home, nil); err != nil {
			return err
		}
		os.MkdirAll(filepath.Join(h.w.home, "tmp"), 0755)
	}
	h.w.log = h.w.log[:s.logLen]
	h.w.events = h.w.events[:s.evLen]
	h.w.seq = s.seq
	return nil
}

func (h *histRun) outputs(label string) map[string][]byte {
	out := map[string][]byte{}
	for _, t := range h.p.closure(label) {
		for _, g := range t.Generates {
			rel := filepath.Join(pkgDir(t.Pkg), g)
			b, err := os.ReadFile(filepath.Join(h.w.root, rel))
			if err != nil {
				b = []byte("<missing>")
			}
			out[rel] = b
		}
	}
	return out
}

func sameOutputs(a, b map[string][]byte) string {
	for k, v := range a {
		if !bytes.Equal(v, b[k]) {
			return k
		}
	}
	return ""
}

type boundary struct {
	Step int
	Kind string
}

func isEffect(kind string) bool {
	if strings.HasPrefix(kind, "body") || strings.HasPrefix(kind, "net.fetch") {
		return true // (net.fetch: between two files of a checkout that is being written)
	}
	switch kind {
	case "os.create", "os.createtemp", "os.write", "os.write2", "os.close", "os.rename", "os.mkdirall", "os.mkdir", "os.remove", "os.removeall", "os.mkdirtemp":
		return true
	}
	return false
}

// recoverAndCheck: after a crashed/failed build, the state must load (both ways) and the
// next fault-free build must succeed, be current (C01 oracle), re-execute `mustRun` and
// converge to `want`.
func (h *histRun) recoverAndCheck(tag string, opIdx int, label string, want map[string][]byte, mustRun []string, what string) *simcheck.Violation {
	pc := h.pc
	pc.CrashAt, pc.IOErrAt, pc.TornFrac = 0, nil, 0
	// (the index-based load comes first: a full load rewrites index.json, and would hide an
	// index the interrupted process left torn; an index-based load that falls back to a full
	// load, or succeeds from the index alone, leaves the records for the full load to see)
	for _, idx := range []bool{true, false} {
		res := h.build(opIdx, &opSpec{Op: "load-only", Index: idx}, pc, nil)
		if v := procFailure(res); v != nil {
			if v.Class != simcheck.EngineError {
				v.Msg = fmt.Sprintf("%s; then loading (prefer_index=%v): %s", what, idx, v.Msg)
				v.Class = "load-after-interruption-" + v.Class
			}
			return v
		}
		if res.LoadErr != nil {
			return simcheck.V("state-not-loadable", "%s; then the project no longer loads (prefer_index=%v): %v", what, idx, res.LoadErr)
		}
	}
	res := h.build(opIdx, &opSpec{Op: "build", Label: label}, pc, nil)
	if v := procFailure(res); v != nil {
		if v.Class != simcheck.EngineError {
			v.Msg = fmt.Sprintf("%s; then the next build: %s", what, v.Msg)
			v.Class = "recovery-build-" + v.Class
		}
		return v
	}
	if res.LoadErr != nil {
		return simcheck.V("state-not-loadable", "%s; then the project no longer loads: %v", what, res.LoadErr)
	}
	if res.RunErr != nil {
		why := ""
		for _, ev := range h.w.events {
			if ev.Kind == "TargetFailed" && ev.Err != nil {
				why = ev.Label + ": " + ev.Err.Error()
			}
		}
		return simcheck.V("recovery-build-fails", "%s; then the next build fails: %v (%s)", what, res.RunErr, why)
	}
	if v := h.checkCurrent(label); v != nil {
		v.Msg = what + "; then " + v.Msg
		return v
	}
	started := map[string]bool{}
	for _, l := range h.startsIn(opIdx) {
		started[l] = true
	}
	for _, l := range mustRun {
		if !started[l] {
			return simcheck.V("unfinished-not-rerun", "%s; the next build did not re-execute %s, which had not completed successfully", what, l)
		}
	}
	if want == nil {
		return nil
	}
	if k := sameOutputs(want, h.outputs(label)); k != "" {
		return simcheck.V("recovery-diverges", "%s; after the next build the generated file %s differs from an uninterrupted build", what, k)
	}
	_ = tag
	return nil
}

// revertLastEdit undoes the last edit-item operation before op `last` (spec, disk, model).
func (h *histRun) revertLastEdit(sc *histScenario, last int) bool {
	for i := last - 1; i >= 0; i-- {
		if sc.Ops[i].Op == "edit-item" {
			inv := sc.Ops[i]
			n := inv.N
			if n == 0 {
				n = 1
			}
			inv.N = -n
			if err := h.edit(last, &inv); err != nil {
				return false
			}
			return true
		}
		if sc.Ops[i].Op == "dir-add" {
			inv := opSpec{Op: "dir-unadd", Path: sc.Ops[i].Path, N: sc.Ops[i].N}
			return h.edit(last, &inv) == nil
		}
		if sc.Ops[i].Op == "add-dep" {
			inv := opSpec{Op: "remove-dep-label", Label: sc.Ops[i].Label, Item: sc.Ops[i].Item}
			return h.edit(last, &inv) == nil
		}
		if isProcessOp(sc.Ops[i].Op) {
			return false
		}
	}
	return false
}

// unfinished lists labels whose body started but did not end successfully during op i.
func (h *histRun) unfinished(i int) []string {
	state := map[string]string{}
	for _, r := range h.w.log {
		if r.Build == i {
			state[r.Label] = r.Kind
		}
	}
	var out []string
	for l, k := range state {
		if k != "end" {
			out = append(out, l)
		}
	}
	sort.Strings(out)
	return out
}

func c03Exec(scAny any, c *simcheck.Ctx) *simcheck.Violation {
	sc := scAny.(*histScenario)
	if sc.Spec == nil || len(sc.Ops) == 0 || sc.Ops[len(sc.Ops)-1].Op != "build" {
		return nil
	}
	h, err := newHistRun(c, sc)
	if err != nil {
		return simcheck.V(simcheck.EngineError, "setup: %v", err)
	}
	defer h.cleanup()
	last := len(sc.Ops) - 1
	final := &sc.Ops[last]
	if h.p.resolve(final.Label) == nil && len(sc.Ops) == 1 {
		return nil
	}
	// fault-free prefix
	for i := 0; i < last; i++ {
		op := &sc.Ops[i]
		if !isProcessOp(op.Op) {
			if op.Op != "nop" {
				if err := h.edit(i, op); err != nil {
					return simcheck.V(simcheck.EngineError, "edit: %v", err)
				}
			}
			continue
		}
		if op.Op == "build" && h.p.resolve(op.Label) == nil {
			continue
		}
		res := h.build(i, op, h.pc, nil)
		if procFailure(res) != nil || res.LoadErr != nil {
			c.St.Count("prefix_failed", 1)
			return nil
		}
	}
	if h.p.resolve(final.Label) == nil {
		return nil
	}
	if sc.Mode == "fail-then-edit" {
		res := h.build(last, final, h.pc, nil)
		if v := procFailure(res); v != nil {
			if v.Class != simcheck.EngineError {
				v.Class = "failing-build-" + v.Class
			}
			return v
		}
		if res.LoadErr != nil {
			return nil
		}
		c.St.Count("failed_build_then_edit_then_rebuild_in_one_process", 1)
		what := fmt.Sprintf("the body of %v failed, a source was edited (%s) and the same process built %s again", final.Fail, final.Between.Path, final.Label)
		if res.RunErr == nil {
			if v := h.checkCurrent(final.Label); v != nil {
				v.Msg = what + "; " + v.Msg
				return v
			}
		}
		if v := h.recoverAndCheck("fail-then-edit", last+1, final.Label, nil, nil, what); v != nil {
			return v
		}
		if v := h.compareFromScratch(final.Label, "fte"); v != nil {
			v.Msg = what + "; " + v.Msg
			return v
		}
		return nil
	}
	snap, err := h.snapshot()
	if err != nil {
		return simcheck.V(simcheck.EngineError, "snapshot: %v", err)
	}
	defer os.RemoveAll(snap.dir)

	// the uninterrupted run, recording its boundaries and I/O operations
	var bounds []boundary
	ioOps := 0
	cleanName := fmt.Sprintf("op%d", last)
	hook := func(step int, kind, detail string) {
		if isEffect(kind) {
			bounds = append(bounds, boundary{step, kind})
		}
		if strings.HasPrefix(kind, "os.") && kind != "os.write2" {
			ioOps++
		}
	}
	clean := h.build(last, final, h.pc, hook)
	if v := procFailure(clean); v != nil || clean.LoadErr != nil || clean.RunErr != nil {
		c.St.Count("clean_run_failed", 1)
		return nil
	}
	if v := h.checkCurrent(final.Label); v != nil {
		return nil // C01's business
	}
	want := h.outputs(final.Label)
	executed := h.startsIn(last)
	cleanSteps := clean.Sim.Steps()
	// the tapes the uninterrupted run consumed, replayed by every faulted run
	recorded := map[string]simrt.TapeData{}
	for _, suffix := range []string{".sched", ".misc", ".fault", ".chunks"} {
		recorded["x"+suffix] = c.Tapes.Get(cleanName + suffix).Used()
	}
	faulted := func(pc procCfg, op *opSpec) *procResult {
		saved := c.Tapes
		c.Tapes = simrt.NewTapeSet(0, map[string]simrt.TapeData{
			"opx.sched": recorded["x.sched"], "opx.misc": recorded["x.misc"], "opx.fault": recorded["x.fault"], "opx.chunks": recorded["x.chunks"]})
		h.prefix = ""
		res := h.buildNamed("opx", last, op, pc, nil)
		c.Tapes = saved
		return res
	}
	narrow := func(v *simcheck.Violation, idx int) *simcheck.Violation {
		n := sc.clone()
		n.Only = &idx
		v.Scenario = n
		return v
	}
	c.St.Count("boundaries", len(bounds))

	switch sc.Mode {
	case "fail":
		// every non-empty subset of the targets that executed (sampled above 4)
		n := len(executed)
		if n == 0 {
			return nil
		}
		masks := []int{}
		if n <= 4 {
			for m := 1; m < 1<<n; m++ {
				masks = append(masks, m)
			}
		} else {
			t := c.Tapes.Get("failsets")
			for k := 0; k < 15; k++ {
				masks = append(masks, 1+t.Intn(1<<n-1))
			}
		}
		for mi, m := range masks {
			if sc.Only != nil && *sc.Only != mi {
				continue
			}
			if err := h.restore(snap); err != nil {
				return simcheck.V(simcheck.EngineError, "restore: %v", err)
			}
			op := *final
			op.Fail = nil
			for k, l := range executed {
				if m&(1<<k) != 0 {
					op.Fail = append(op.Fail, l)
				}
			}
			res := faulted(h.pc, &op)
			c.St.Count("failure_patterns", 1)
			if v := procFailure(res); v != nil {
				if v.Class == simcheck.EngineError {
					return v
				}
				v.Class = "failing-build-" + v.Class
				return narrow(v, mi)
			}
			failed := []string{}
			for _, r := range h.w.log {
				if r.Build == last && r.Kind == "fail" {
					failed = append(failed, r.Label)
				}
			}
			if len(failed) > 0 && res.RunErr == nil && res.LoadErr == nil {
				return narrow(simcheck.V("failure-not-reported", "the bodies of %v failed but the build reported success", failed), mi)
			}
			what := fmt.Sprintf("bodies of %v failed", op.Fail)
			recIdx := last + 1
			var stillFailed []string
			stillFailed = append(stillFailed, failed...)
			if bits.OnesCount(uint(m))%2 == 1 {
				// "followed by arbitrary further builds": first repair the failed targets one by
				// one with partial builds of just them, then build the original label
				for _, l := range failed {
					pc := h.pc
					pc.CrashAt, pc.IOErrAt, pc.TornFrac = 0, nil, 0
					r2 := h.build(recIdx, &opSpec{Op: "build", Label: l}, pc, nil)
					if v := procFailure(r2); v != nil {
						if v.Class != simcheck.EngineError {
							v.Class = "recovery-build-" + v.Class
						}
						return narrow(v, mi)
					}
					if r2.LoadErr != nil {
						return narrow(simcheck.V("state-not-loadable", "%s; then the project no longer loads: %v", what, r2.LoadErr), mi)
					}
					if r2.RunErr == nil {
						started := false
						for _, sl := range h.startsIn(recIdx) {
							if sl == l {
								started = true
							}
						}
						if !started {
							return narrow(simcheck.V("unfinished-not-rerun", "%s; a build of %s alone did not re-execute it", what, l), mi)
						}
						var rest []string
						for _, x := range stillFailed {
							if x != l {
								rest = append(rest, x)
							}
						}
						stillFailed = rest
					}
					recIdx++
				}
				what += "; the failed targets were then rebuilt one by one"
				c.St.Count("partial_recoveries", 1)
			}
			if v := h.recoverAndCheck("fail", recIdx, final.Label, want, stillFailed, what); v != nil {
				return narrow(v, mi)
			}
		}
	case "diskfull":
		// from one I/O operation on, every operation that creates or writes fails (ENOSPC),
		// and the bodies that run fail after (half) writing their outputs
		stride := ioOps/40 + 1
		for k := 1 + c.Tapes.Get("diskfull").Intn(stride); k <= ioOps; k += stride {
			if sc.Only != nil && *sc.Only != k {
				continue
			}
			if err := h.restore(snap); err != nil {
				return simcheck.V(simcheck.EngineError, "restore: %v", err)
			}
			pc := h.pc
			pc.IOErrFrom = k
			op := *final
			op.Fail = append([]string{}, executed...)
			op.FailLate = true // (bodies fail after writing their outputs)
			res := faulted(pc, &op)
			c.St.Count("disk_full_runs", 1)
			if v := procFailure(res); v != nil {
				if v.Class == simcheck.EngineError {
					return v
				}
				v.Class = "disk-full-" + v.Class
				return narrow(v, k)
			}
			failed := []string{}
			for _, r := range h.w.log {
				if r.Build == last && r.Kind == "fail" {
					failed = append(failed, r.Label)
				}
			}
			if len(failed) > 0 && res.LoadErr == nil && res.RunErr == nil {
				return narrow(simcheck.V("failure-not-reported", "the disk filled up at I/O operation %d and the bodies of %v failed, but the build reported success", k, failed), k)
			}
			what := fmt.Sprintf("the disk was full from I/O operation %d on and the bodies of %v failed after writing their outputs", k, failed)
			if v := h.recoverAndCheck("diskfull", last+1, final.Label, want, failed, what); v != nil {
				return narrow(v, k)
			}
		}
	case "ioerr":
		for k := 1; k <= ioOps; k++ {
			if sc.Only != nil && *sc.Only != k {
				continue
			}
			if err := h.restore(snap); err != nil {
				return simcheck.V(simcheck.EngineError, "restore: %v", err)
			}
			pc := h.pc
			pc.IOErrAt = map[int]int{k: k}
			res := faulted(pc, final)
			c.St.Count("io_errors_injected", 1)
			if v := procFailure(res); v != nil {
				if v.Class == simcheck.EngineError {
					return v
				}
				v.Class = "io-error-" + v.Class
				v.Msg = fmt.Sprintf("I/O operation %d of the build fails: %s", k, v.Msg)
				return narrow(v, k)
			}
			what := fmt.Sprintf("I/O operation %d of the build failed (load error: %v, build error: %v)", k, res.LoadErr, res.RunErr)
			if res.LoadErr == nil && res.RunErr == nil {
				c.St.Count("io_error_tolerated", 1)
				if v := h.checkCurrent(final.Label); v != nil {
					v.Msg = what + "; " + v.Msg
					return narrow(v, k)
				}
			}
			if v := h.recoverAndCheck("ioerr", last+1, final.Label, want, h.unfinished(last), what); v != nil {
				return narrow(v, k)
			}
		}
	default: // crash, compose
		type variant struct{ b, torn int }
		var vs []variant
		for _, b := range bounds {
			vs = append(vs, variant{b.Step, 0})
			if b.Kind == "os.write" {
				vs = append(vs, variant{b.Step, 500})
			}
		}
		vs = append(vs, variant{cleanSteps, 0}) // the very last step
		if c.Tier != "thorough" && len(vs) > 160 && sc.Only == nil {
			// stratified sample: every k-th boundary, always the first and last ten
			var keep []variant
			k := len(vs)/140 + 1
			for i, v := range vs {
				if i < 10 || i >= len(vs)-10 || i%k == 0 {
					keep = append(keep, v)
				}
			}
			vs = keep
		}
		for vi, v := range vs {
			idx := v.b*2 + v.torn/500
			if sc.Only != nil && *sc.Only != idx {
				continue
			}
			_ = vi
			if err := h.restore(snap); err != nil {
				return simcheck.V(simcheck.EngineError, "restore: %v", err)
			}
			pc := h.pc
			pc.CrashAt, pc.TornFrac = v.b, v.torn
			res := faulted(pc, final)
			if res.Sim.Stuck {
				return simcheck.V(simcheck.EngineError, "watchdog during crash run")
			}
			if !res.Sim.Crashed {
				c.St.Count("crash_point_not_reached", 1)
				continue
			}
			c.St.Count("crash_points", 1)
			if f := strings.Fields(res.Sim.CrashOp); len(f) > 0 {
				c.St.Probes["died_before_"+f[0]]++
				if strings.Contains(res.Sim.CrashOp, "index.json") {
					c.St.Probes["died_while_writing_index_json"]++
				}
				if v.torn > 0 {
					c.St.Probes["died_inside_a_write_torn"]++
				}
			}
			if f := res.Sim.Failure; f != nil {
				return narrow(simcheck.V("crash-run-"+f.Kind, "%s", f.Msg), idx)
			}
			what := fmt.Sprintf("the build process died at step %d (%s)", v.b, res.Sim.CrashOp)
			unfinished := h.unfinished(last)
			if sc.Mode == "compose" {
				// die again during the recovery build, at a tape-chosen step
				pc2 := h.pc
				pc2.CrashAt = 1 + c.Tapes.Get(fmt.Sprintf("compose%d", idx)).Intn(cleanSteps)
				pc2.IOErrAt = nil
				r2 := h.build(last+1, &opSpec{Op: "build", Label: final.Label}, pc2, nil)
				if r2.Sim.Crashed {
					c.St.Count("second_crashes", 1)
					what += fmt.Sprintf("; the recovery build died at step %d (%s)", pc2.CrashAt, r2.Sim.CrashOp)
				}
				if v := procFailure(r2); v != nil && v.Class != simcheck.EngineError {
					v.Class = "recovery-build-" + v.Class
					return narrow(v, idx)
				}
				unfinished = append(unfinished, h.unfinished(last+1)...)
				// a target that completed in the second run no longer has to re-run
				var still []string
				for _, l := range unfinished {
					done := false
					for _, r := range h.w.log {
						if r.Build == last+1 && r.Label == l && r.Kind == "end" {
							done = true
						}
					}
					if !done {
						still = append(still, l)
					}
				}
				unfinished = still
				if v := h.recoverAndCheck("compose", last+2, final.Label, want, unfinished, what); v != nil {
					return narrow(v, idx)
				}
				continue
			}
			if sc.Mode == "crash-unalways" {
				n := 0
				for _, l := range unfinished {
					if t := h.p.target(l); t != nil && t.Always {
						if err := h.edit(last, &opSpec{Op: "set-always", Label: l, N: 0}); err != nil {
							return simcheck.V(simcheck.EngineError, "edit: %v", err)
						}
						n++
					}
				}
				if n == 0 {
					continue
				}
				c.St.Count("always_removed_after_crash", 1)
				what += "; always= was then removed from the interrupted targets"
				if v := h.recoverAndCheck("crash-unalways", last+1, final.Label, want, unfinished, what); v != nil {
					return narrow(v, idx)
				}
				h.p = sc.clone().Spec
				for i := 0; i < last; i++ {
					if !isProcessOp(sc.Ops[i].Op) {
						h.p.applySpecEdit(&sc.Ops[i])
					}
				}
				h.prev = h.p.files()
				h.w.bodies = h.p.bodySpecs(h.w.root)
				h.refreshModel("restored")
				continue
			}
			if sc.Mode == "crash-revert" {
				// "followed by arbitrary further edits": undo the last edit, so the tree is back
				// to what the interrupted target last completed against
				if !h.revertLastEdit(sc, last) {
					continue
				}
				what += "; the last edit was then undone"
				if v := h.recoverAndCheck("crash-revert", last+1, final.Label, nil, unfinished, what); v != nil {
					return narrow(v, idx)
				}
				if v := h.compareFromScratch(final.Label, fmt.Sprintf("revert%d", idx)); v != nil {
					v.Msg = what + "; " + v.Msg
					return narrow(v, idx)
				}
				// the spec is restored for the next crash point
				h.p = sc.clone().Spec
				for i := 0; i < last; i++ {
					if !isProcessOp(sc.Ops[i].Op) {
						h.p.applySpecEdit(&sc.Ops[i])
					}
				}
				h.prev = h.p.files()
				h.w.bodies = h.p.bodySpecs(h.w.root)
				h.refreshModel("restored")
				continue
			}
			if v := h.recoverAndCheck("crash", last+1, final.Label, want, unfinished, what); v != nil {
				return narrow(v, idx)
			}
		}
	}
	return nil
}
