package dawn

// E3 — Cache.once under the simulated scheduler (C20): recorded invoke/return histories
// of concurrent once calls are checked for linearizability (porcupine) against the
// sequential model "a map; once(k,f) returns the stored value without calling f, else
// calls f, stores on success, stores nothing on failure".

import (
	"fmt"
	"math/rand/v2"
	"sort"
	"strings"
	"time"

	"github.com/anishathalye/porcupine"
	"go.starlark.net/starlark"
	"verif.local/sim/simcheck"
	"verif.local/sim/simrt"
	"verif.local/sim/simsync"
)

type e3Call struct {
	Key    int  `json:"key"`
	Fail   bool `json:"fail"`
	Yields int  `json:"yields"`
	// Cache selects one of the scenario's caches. A call on the second cache may have its
	// callable call once on the first (a cached value computed from another cached value);
	// never the other way round, which would be a lock-order inversion of the caller's making.
	Cache int     `json:"cache,omitempty"`
	Inner *e3Call `json:"inner,omitempty"`
	// Freeze: instead of calling once, freeze the cache, as the end of a module's load does to
	// every value reachable from its globals (a cache reachable from two modules, or twice
	// from one, is frozen more than once, possibly while other modules still call once).
	Freeze bool `json:"freeze,omitempty"`
	// FailValue: the failing callable returns a value together with its error, as some
	// builtins do (dict.clear on a frozen dict returns None and an error).
	FailValue bool `json:"fail_with_value,omitempty"`
}

type e3Scenario struct {
	Caches   int        `json:"caches,omitempty"`
	Clients  [][]e3Call `json:"clients"`
	Strategy int        `json:"strategy"`
	Sticky   int        `json:"sticky"`
	UnlockY  bool       `json:"unlock_yields,omitempty"`
	PCTDepth int        `json:"pct_depth"`
}

func e3Gen(r *rand.Rand, tier string) any {
	sc := &e3Scenario{Strategy: []int{simrt.StratUniform, simrt.StratUniform, simrt.StratSticky, simrt.StratPCT, simrt.StratRoundRobin}[r.IntN(5)],
		Sticky: []int{50, 90, 99}[r.IntN(3)], PCTDepth: 1 + r.IntN(3), UnlockY: r.IntN(2) == 0}
	nc := 2 + r.IntN(5)
	nk := 1 + r.IntN(3)
	sc.Caches = 1 + r.IntN(4)/3
	for c := 0; c < nc; c++ {
		var calls []e3Call
		for k := 0; k < 1+r.IntN(4); k++ {
			call := e3Call{Key: r.IntN(nk), Fail: r.IntN(4) == 0, Yields: r.IntN(4)}
			call.FailValue = call.Fail && r.IntN(3) == 0
			if sc.Caches == 2 && r.IntN(2) == 0 {
				call.Cache = 1
				if r.IntN(2) == 0 {
					call.Inner = &e3Call{Key: r.IntN(nk), Fail: r.IntN(5) == 0, Yields: r.IntN(3)}
				}
			}
			if r.IntN(8) == 0 {
				call = e3Call{Freeze: true, Cache: call.Cache}
			}
			calls = append(calls, call)
		}
		sc.Clients = append(sc.Clients, calls)
	}
	return sc
}

type e3In struct {
	key string
	id  int
}
type e3Out struct {
	val     string
	failed  bool
	invoked bool
}

var e3Model = porcupine.Model{
	Init: func() interface{} { return "" },
	Step: func(state, input, output interface{}) (bool, interface{}) {
		st := state.(string)
		in := input.(e3In)
		out := output.(e3Out)
		entries := map[string]string{}
		if st != "" {
			for _, kv := range strings.Split(st, ";") {
				p := strings.SplitN(kv, "=", 2)
				entries[p[0]] = p[1]
			}
		}
		if v, ok := entries[in.key]; ok {
			return !out.invoked && !out.failed && out.val == v, state
		}
		if !out.invoked {
			return false, state
		}
		if out.failed {
			return true, state
		}
		if out.val != fmt.Sprintf("v%d", in.id) {
			return false, state
		}
		entries[in.key] = out.val
		ks := make([]string, 0, len(entries))
		for k := range entries {
			ks = append(ks, k)
		}
		sort.Strings(ks)
		parts := make([]string, len(ks))
		for i, k := range ks {
			parts[i] = k + "=" + entries[k]
		}
		return true, strings.Join(parts, ";")
	},
	Equal: func(a, b interface{}) bool { return a.(string) == b.(string) },
	DescribeOperation: func(input, output interface{}) string {
		return fmt.Sprintf("once(%v) -> %+v", input, output)
	},
}

func e3Exec(scAny any, c *simcheck.Ctx) *simcheck.Violation {
	sc := scAny.(*e3Scenario)
	if len(sc.Clients) == 0 {
		return nil
	}
	cfg := simrt.Config{Sched: c.Tapes.Get("sched"), Misc: c.Tapes.Get("misc"), Strategy: sc.Strategy, StickyNum: sc.Sticky, PCTDepth: sc.PCTDepth, PCTEst: 120, MaxSteps: 50000, UnlockYields: sc.UnlockY}
	if c.Trace {
		cfg.TraceMax = 2000
	}
	s := simrt.New(cfg)
	var ops []porcupine.Operation
	seq := int64(0)
	invokedOK := map[string][]int{}
	values := map[string]map[string]bool{}
	var setupErr error
	s.Run(func() {
		var onces []starlark.Callable
		var caches []starlark.Value
		for i := 0; i < max(1, sc.Caches); i++ {
			cv, err := starlark.Call(&starlark.Thread{Name: "setup"}, builtin_cache, nil, nil)
			if err != nil {
				setupErr = err
				return
			}
			once, err := cv.(starlark.HasAttrs).Attr("once")
			if err != nil || once == nil {
				setupErr = fmt.Errorf("cache has no once attribute: %v", err)
				return
			}
			onces = append(onces, once.(starlark.Callable))
			caches = append(caches, cv)
		}
		var wg simsync.WaitGroup
		id := 0
		var do func(thread *starlark.Thread, client int, call e3Call, opID int)
		do = func(thread *starlark.Thread, client int, call e3Call, opID int) {
			cache := min(call.Cache, len(onces)-1)
			if call.Freeze {
				s.Yield("freeze", fmt.Sprintf("c%d", cache))
				caches[cache].Freeze()
				return
			}
			key := fmt.Sprintf("c%d/k%d", cache, call.Key)
			invoked := false
			fn := starlark.NewBuiltin("callable", func(th *starlark.Thread, _ *starlark.Builtin, _ starlark.Tuple, _ []starlark.Tuple) (starlark.Value, error) {
				invoked = true
				for y := 0; y < call.Yields; y++ {
					s.Yield("callable", key)
				}
				if call.Inner != nil && cache > 0 {
					in := *call.Inner
					in.Cache, in.Inner = 0, nil
					do(th, 1000+opID, in, opID+1)
				}
				if call.Fail {
					if call.FailValue {
						return starlark.None, fmt.Errorf("callable %d failed", opID)
					}
					return nil, fmt.Errorf("callable %d failed", opID)
				}
				invokedOK[key] = append(invokedOK[key], opID)
				return starlark.String(fmt.Sprintf("v%d", opID)), nil
			})
			seq++
			callAt := seq
			v, err := starlark.Call(thread, onces[cache], starlark.Tuple{starlark.String(key), fn}, nil)
			seq++
			out := e3Out{invoked: invoked, failed: err != nil}
			if err == nil {
				if sv, ok := v.(starlark.String); ok {
					out.val = string(sv)
				} else {
					out.val = v.String()
				}
				if values[key] == nil {
					values[key] = map[string]bool{}
				}
				values[key][out.val] = true
			}
			ops = append(ops, porcupine.Operation{ClientId: client, Input: e3In{key, opID}, Call: callAt, Output: out, Return: seq})
		}
		for ci, calls := range sc.Clients {
			ci, calls := ci, calls
			base := id
			id += 2 * len(calls)
			wg.Add(1)
			simrt.Go(func() {
				defer wg.Done()
				thread := &starlark.Thread{Name: fmt.Sprintf("client%d", ci)}
				for k, call := range calls {
					do(thread, ci, call, base+2*k)
				}
			})
		}
		wg.Wait()
	})
	c.Sim(s, simcheck.ScenarioHash(sc), sc.Strategy)
	if s.Stuck {
		return simcheck.V(simcheck.EngineError, "watchdog")
	}
	if setupErr != nil {
		return simcheck.V(simcheck.EngineError, "setup: %v", setupErr)
	}
	if f := s.Failure; f != nil {
		switch f.Kind {
		case simrt.FailDeadlock:
			return simcheck.V("deadlock", "concurrent once calls deadlock: %s", f.Gs)
		case simrt.FailBudget:
			return simcheck.V("no-termination", "%s", f.Msg)
		default:
			return simcheck.V("panic", "%s: %s", f.Kind, f.Msg)
		}
	}
	for key, ids := range invokedOK {
		if len(ids) > 1 {
			return simcheck.V("computed-twice", "the callable for key %s was invoked successfully %d times (calls %v)", key, len(ids), ids)
		}
	}
	for key, vs := range values {
		if len(vs) > 1 {
			var l []string
			for v := range vs {
				l = append(l, v)
			}
			sort.Strings(l)
			return simcheck.V("different-values", "callers of once(%s) received different values %v", key, l)
		}
	}
	res := porcupine.CheckOperationsTimeout(e3Model, ops, 30*time.Second)
	switch res {
	case porcupine.Illegal:
		var sb strings.Builder
		for _, o := range ops {
			fmt.Fprintf(&sb, "[%d,%d] c%d once(%v)->%+v; ", o.Call, o.Return, o.ClientId, o.Input, o.Output)
		}
		return simcheck.V("not-linearizable", "history of once calls is not linearizable against the sequential cache model: %s", sb.String())
	case porcupine.Unknown:
		c.St.Count("linearizability_check_timed_out", 1)
	default:
		c.St.Count("histories_linearizable", 1)
	}
	c.St.Count("operations_checked", len(ops))
	return nil
}

func e3Simplify(scAny any) []any {
	sc := scAny.(*e3Scenario)
	var out []any
	clone := func() *e3Scenario {
		c := *sc
		c.Clients = make([][]e3Call, len(sc.Clients))
		for i := range sc.Clients {
			c.Clients[i] = append([]e3Call{}, sc.Clients[i]...)
		}
		return &c
	}
	for i := range sc.Clients {
		if len(sc.Clients) > 1 {
			c := clone()
			c.Clients = append(c.Clients[:i:i], c.Clients[i+1:]...)
			out = append(out, c)
		}
		for k := range sc.Clients[i] {
			if len(sc.Clients[i]) > 1 {
				c := clone()
				c.Clients[i] = append(c.Clients[i][:k:k], c.Clients[i][k+1:]...)
				out = append(out, c)
			}
			if sc.Clients[i][k].Freeze {
				continue
			}
			if sc.Clients[i][k].Inner != nil {
				c := clone()
				c.Clients[i][k].Inner = nil
				out = append(out, c)
			}
			if sc.Clients[i][k].Cache != 0 && sc.Clients[i][k].Inner == nil {
				c := clone()
				c.Clients[i][k].Cache = 0
				out = append(out, c)
			}
			if sc.Clients[i][k].Fail || sc.Clients[i][k].Yields > 0 {
				c := clone()
				c.Clients[i][k].Fail, c.Clients[i][k].Yields = false, 0
				out = append(out, c)
			}
		}
	}
	return out
}
