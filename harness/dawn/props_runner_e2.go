package dawn

// Project-level forms of C04 and C05: the real runner driven by real projects (Load + Run)
// instead of synthetic targets. Registered under the same property ids; the driver runs
// both engines for these properties.

import (
	"math/rand/v2"
	"strings"

	"github.com/pgavlin/dawn/runner"
	"verif.local/sim/simcheck"
)

func runnerE2Gen(r *rand.Rand, tier string) any {
	o := defaultGenOpts(tier)
	o.MaxTargets = 8
	sc := &histScenario{Spec: genProject(r, o), Proc: genProc(r)}
	p := sc.Spec
	// denser sharing: extra edges towards later targets (diamonds)
	for i := range p.Targets {
		for j := i + 1; j < len(p.Targets); j++ {
			if r.IntN(100) < 25 {
				l := p.Targets[j].label()
				dup := false
				for _, d := range p.Targets[i].Deps {
					if d == l {
						dup = true
					}
				}
				if !dup {
					p.Targets[i].Deps = append(p.Targets[i].Deps, l)
				}
			}
		}
	}
	switch r.IntN(5) {
	case 0:
		if len(p.Targets) >= 2 {
			a, b := r.IntN(len(p.Targets)), r.IntN(len(p.Targets))
			p.Targets[a].Deps = append(p.Targets[a].Deps, p.Targets[b].label())
			if a != b {
				p.Targets[b].Deps = append(p.Targets[b].Deps, p.Targets[a].label())
			}
			sc.Mode = "cycle"
		}
	case 1:
		if len(p.Targets) >= 3 {
			perm := r.Perm(len(p.Targets))
			k := 3 + r.IntN(len(p.Targets)-2)
			for x := 0; x < k; x++ {
				a, b := perm[x], perm[(x+1)%k]
				p.Targets[a].Deps = append(p.Targets[a].Deps, p.Targets[b].label())
			}
			sc.Mode = "cycle"
		}
	case 2:
		a := r.IntN(len(p.Targets))
		// a label that names no target: an unknown name, a package label without a name, or
		// the default target of a directory that is not a package
		dep := []string{"//:nope", "//:nope", "//a", "//c", "//a/zz:default", "//zz:default", "//a/b/zz:default"}[r.IntN(7)]
		p.Targets[a].Deps = append(p.Targets[a].Deps, dep)
		if r.IntN(2) == 0 {
			// ... next to the default target of the enclosing package under its own label
			for i := range p.Targets {
				if d := &p.Targets[i]; d.Default && i != a && !p.reaches(d, &p.Targets[a]) {
					def, sub := d.Pkg+":default", d.Pkg+"/zz:default"
					if d.Pkg == "//" {
						def, sub = "//:default", "//zz:default"
					}
					p.Targets[a].Deps = append(p.Targets[a].Deps[:len(p.Targets[a].Deps)-1], def, sub)
					break
				}
			}
		}
		sc.Mode = "unknown"
	case 3:
		// a watch session: the graph has a hazard (a dependency on a target that does not exist
		// yet, or a cycle), the build fails, the BUILD file is repaired, and the loaded project is
		// reloaded and built again - nothing the first build learnt may outlive the reload
		a := r.IntN(len(p.Targets))
		la := p.Targets[a].label()
		if r.IntN(2) == 0 {
			p.Targets[a].Deps = append(p.Targets[a].Deps, "//:n777")
			sc.Mode = "watch"
			sc.Ops = append(sc.Ops, opSpec{Op: "build", Label: la}, opSpec{Op: "add-target", Label: "//", N: 777}, opSpec{Op: "build", Label: la, Reload: true})
			return sc
		}
		if len(p.Targets) >= 2 {
			b := (a + 1 + r.IntN(len(p.Targets)-1)) % len(p.Targets)
			lb := p.Targets[b].label()
			has := false
			for _, d := range p.Targets[b].Deps {
				has = has || d == la
			}
			if !has {
				p.Targets[a].Deps = append(p.Targets[a].Deps, lb)
				p.Targets[b].Deps = append(p.Targets[b].Deps, la)
				sc.Mode = "watch"
				sc.Ops = append(sc.Ops, opSpec{Op: "build", Label: la}, opSpec{Op: "remove-dep-label", Label: lb, Item: la}, opSpec{Op: "build", Label: la, Reload: true})
				return sc
			}
		}
	}
	for k := 0; k < 1+r.IntN(3); k++ {
		op := opSpec{Op: "build", Label: pickLabel(r, p), Always: r.IntN(4) == 0}
		if r.IntN(3) == 0 {
			for ti := range p.Targets {
				if r.IntN(4) == 0 {
					op.Fail = append(op.Fail, p.Targets[ti].label())
				}
			}
		}
		// the REPL: run again on the project the previous build loaded
		op.Keep = k > 0 && r.IntN(2) == 0
		sc.Ops = append(sc.Ops, op)
	}
	return sc
}

// specCyclic: does the closure of label (through declared dependencies and generated
// sources) contain a dependency cycle?
func specCyclic(p *projSpec, label string) bool {
	root := p.resolve(label)
	if root == nil {
		return false
	}
	color := map[string]int{}
	var dfs func(t *targetSpec) bool
	dfs = func(t *targetSpec) bool {
		color[t.label()] = 1
		for _, d := range p.directDeps(t) {
			switch color[d.label()] {
			case 1:
				return true
			case 0:
				if dfs(d) {
					return true
				}
			}
		}
		color[t.label()] = 2
		return false
	}
	return dfs(root)
}

func runnerE2Exec(prop string) func(any, *simcheck.Ctx) *simcheck.Violation {
	return func(scAny any, c *simcheck.Ctx) *simcheck.Violation {
		sc := scAny.(*histScenario)
		if sc.Spec == nil || len(sc.Spec.Targets) == 0 {
			return nil
		}
		h, err := newHistRun(c, sc)
		if err != nil {
			return simcheck.V(simcheck.EngineError, "setup: %v", err)
		}
		defer h.cleanup()
		first := true
		for i := range sc.Ops {
			op := &sc.Ops[i]
			if op.Op == "add-target" || op.Op == "remove-dep-label" {
				if err := h.edit(i, op); err != nil {
					return simcheck.V(simcheck.EngineError, "edit: %v", err)
				}
				continue
			}
			if op.Op != "build" || h.p.resolve(op.Label) == nil {
				continue
			}
			h.w.events = nil
			h.w.running, h.w.maxRunning = 0, 0
			res := h.build(i, op, h.pc, nil)
			cyclicNow := specCyclic(h.p, op.Label)
			if prop == "C09" {
				if h.w.maxRunning > h.pc.NumCPU {
					return simcheck.V("limit-exceeded", "%d target bodies were running at once in a build of %s with a parallelism limit of %d", h.w.maxRunning, op.Label, h.pc.NumCPU)
				}
				if v := procFailure(res); v != nil {
					if v.Class == simcheck.EngineError {
						return v
					}
					if !cyclicNow && (v.Class == "deadlock" || v.Class == "no-termination") {
						v.Class = "limit-deadlock"
						v.Msg = "acyclic project does not finish building " + op.Label + " with parallelism limit " + itoa(h.pc.NumCPU) + ": " + v.Msg
						return v
					}
					return nil
				}
				if h.pc.NumCPU == 1 {
					c.St.Probes["project_built_at_limit_1"]++
				}
				c.St.Count("project_builds_checked", 1)
				first = false
				continue
			}
			if v := procFailure(res); v != nil {
				if v.Class == simcheck.EngineError {
					return v
				}
				if prop == "C05" && (v.Class == "deadlock" || v.Class == "no-termination") {
					v.Msg = "build of " + op.Label + " (parallelism limit " + itoa(h.pc.NumCPU) + "): " + v.Msg
					return v
				}
				if v.Class == "panic" {
					return v
				}
				return nil
			}
			if res.LoadErr != nil {
				if first {
					return simcheck.V(simcheck.EngineError, "generated project does not load: %v", res.LoadErr)
				}
				return nil
			}
			first = false
			cycHanded := false
			for _, e := range h.w.events {
				if _, ok := e.Err.(runner.CyclicDependencyError); ok && e.Kind == "TargetFailed" {
					cycHanded = true
				}
			}
			cyclic := specCyclic(h.p, op.Label)
			if cyclic {
				c.St.Probes["cyclic_project_graph"]++
			}
			switch prop {
			case "C05":
				if cyclic {
					if res.RunErr == nil {
						return simcheck.V("cycle-build-succeeded", "the targets reachable from %s contain a dependency cycle but the build succeeded", op.Label)
					}
					if !cycHanded {
						if _, ok := res.RunErr.(runner.CyclicDependencyError); !ok {
							return simcheck.V("cycle-not-reported", "the targets reachable from %s contain a dependency cycle but no cyclic-dependency error was reported (build error: %v)", op.Label, res.RunErr)
						}
					}
				} else if cycHanded {
					return simcheck.V("false-cycle", "the targets reachable from %s are acyclic but a cyclic-dependency error was reported", op.Label)
				}
				c.St.Count("project_builds_checked", 1)
			case "C04":
				if cyclic {
					continue // the runner returns early; ordering of unrelated targets is not observable
				}
				starts, ends := map[string]int{}, map[string]int{}
				failed := map[string]bool{}
				count := map[string]int{}
				for _, r := range h.w.log {
					if r.Build != i {
						continue
					}
					switch r.Kind {
					case "start":
						count[r.Label]++
						starts[r.Label] = r.Seq
					case "end":
						ends[r.Label] = r.Seq
					case "fail":
						ends[r.Label] = r.Seq
						failed[r.Label] = true
					}
				}
				for l, n := range count {
					if n > 1 {
						return simcheck.V("evaluated-twice", "the body of %s ran %d times in one build of %s", l, n, op.Label)
					}
				}
				// ... and is judged once: one verdict (up to date, succeeded or failed) per label
				verdicts := map[string][]string{}
				for _, e := range h.w.events {
					switch e.Kind {
					case "TargetUpToDate", "TargetSucceeded", "TargetFailed":
						verdicts[e.Label] = append(verdicts[e.Label], strings.TrimPrefix(e.Kind, "Target"))
					}
				}
				for l, vs := range verdicts {
					if len(vs) > 1 && !op.Twice && !op.DryNil {
						return simcheck.V("evaluated-twice", "%s was evaluated %d times in one build of %s (verdicts %v)", l, len(vs), op.Label, vs)
					}
				}
				for l, s := range starts {
					t := h.p.target(l)
					if t == nil {
						continue
					}
					for _, d := range h.p.directDeps(t) {
						dl := d.label()
						if _, ran := starts[dl]; !ran {
							continue
						}
						if e, done := ends[dl]; !done || e > s {
							return simcheck.V("dep-not-finished", "in a build of %s the body of %s started before its dependency %s had finished", op.Label, l, dl)
						}
						if failed[dl] {
							return simcheck.V("wrong-dep-outcome", "in a build of %s the body of %s ran although its dependency %s failed", op.Label, l, dl)
						}
					}
				}
				// the build's result is the requested target's result
				rootOutcome := ""
				for _, e := range h.w.events {
					if e.Label == op.Label {
						switch e.Kind {
						case "TargetSucceeded", "TargetUpToDate":
							rootOutcome = "ok"
						case "TargetFailed":
							rootOutcome = "failed"
						}
					}
				}
				if res.RunErr != nil && len(failed) == 0 && (sc.Mode == "" || (sc.Mode == "watch" && !specUnknown(h.p, op.Label))) {
					return simcheck.V("wrong-run-result", "the build of %s returned %v although no body failed in this build and the graph has neither cycles nor unknown targets", op.Label, res.RunErr)
				}
				if rootOutcome == "ok" && res.RunErr != nil {
					return simcheck.V("wrong-run-result", "the requested target %s succeeded but the build returned %v", op.Label, res.RunErr)
				}
				if rootOutcome != "ok" && res.RunErr == nil {
					return simcheck.V("wrong-run-result", "the build of %s returned success but the requested target's outcome is %q", op.Label, rootOutcome)
				}
				c.St.Count("project_builds_checked", 1)
			}
		}
		return nil
	}
}

// specUnknown: does some target in the closure of label name a dependency that does not exist?
func specUnknown(p *projSpec, label string) bool {
	for _, t := range p.closure(label) {
		for _, d := range t.Deps {
			if p.resolve(d) == nil {
				return true
			}
		}
	}
	return false
}

func itoa(n int) string {
	if n == 0 {
		return "0"
	}
	s := ""
	for n > 0 {
		s = string(rune('0'+n%10)) + s
		n /= 10
	}
	return s
}

func init() {
	for _, id := range []string{"C04", "C05", "C09"} {
		e2Props[id] = &simcheck.Prop{ID: id, Gen: runnerE2Gen, New: newHistScenario, Exec: runnerE2Exec(id), Simplify: histSimplify}
	}
}
