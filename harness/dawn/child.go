package dawn

// A build performed by another OS process. All simulated processes of a worker share one
// OS process, and with it everything the Go runtime randomises once per process (the seeds
// of its string and map hashes, addresses). State that one process writes and another
// reads must not depend on those; to see that, some rebuilds are handed to a child: the same
// test binary started again, which loads the tree the parent left behind, builds one label
// under its own simulator and reports what it executed.

import (
	"encoding/json"
	"fmt"
	"os"
	"os/exec"
	"path/filepath"
	"runtime"
	"sort"
	"testing"

	"github.com/mitchellh/go-homedir"
	"verif.local/sim/simcheck"
	"verif.local/sim/simrt"
)

type childReq struct {
	Spec  *projSpec `json:"spec"`
	Root  string    `json:"root"`
	Home  string    `json:"home"`
	Label string    `json:"label"`
	Proc  procCfg   `json:"proc"`
	Seed  uint64    `json:"seed"`
	Out   string    `json:"out"`
}

type childRes struct {
	Started []string          `json:"started"`
	Reasons map[string]string `json:"reasons"`
	LoadErr string            `json:"load_error"`
	RunErr  string            `json:"run_error"`
	Failure string            `json:"failure"`
	Steps   int               `json:"steps"`
}

func TestVerifChild(t *testing.T) {
	path := os.Getenv("VERIF_CHILD")
	if path == "" {
		t.Skip("not a child build")
	}
	os.Exit(runChild(path))
}

func runChild(path string) int {
	b, err := os.ReadFile(path)
	if err != nil {
		return 2
	}
	var req childReq
	if err := json.Unmarshal(b, &req); err != nil {
		return 2
	}
	if os.Getenv("VERIF_GC_HAMMER") != "" {
		go func() {
			for {
				runtime.GC()
			}
		}()
	}
	c := &simcheck.Ctx{Tapes: simrt.NewTapeSet(req.Seed, nil), St: simcheck.NewStats(), Tier: "quick"}
	os.Setenv("HOME", req.Home)
	homedir.DisableCache = true
	w := &world{root: req.Root, home: req.Home, bodies: req.Spec.bodySpecs(req.Root), failing: map[string]bool{}, written: map[string]string{}, ctx: c}
	w.keyOf = func(string) string { return "" }
	w.exts = func() *projSpec { return req.Spec }
	pc := req.Proc
	pc.WatchdogS = 120
	res := w.process("child", pc, buildOpts{Label: req.Label, Args: req.Spec.args()}, nil)
	out := childRes{Reasons: map[string]string{}, Steps: res.Sim.Steps()}
	for _, r := range w.log {
		if r.Kind == "start" {
			out.Started = append(out.Started, r.Label)
		}
	}
	sort.Strings(out.Started)
	for _, e := range w.events {
		if e.Kind == "TargetEvaluating" {
			out.Reasons[e.Label] = e.Text
		}
	}
	if res.LoadErr != nil {
		out.LoadErr = res.LoadErr.Error()
	}
	if res.RunErr != nil {
		out.RunErr = res.RunErr.Error()
	}
	if res.Sim.Stuck {
		out.Failure = "stuck"
	} else if f := res.Sim.Failure; f != nil {
		out.Failure = f.Kind + ": " + f.Msg
	}
	ob, _ := json.Marshal(out)
	if os.WriteFile(req.Out, ob, 0644) != nil {
		return 2
	}
	return 0
}

// buildInChild performs the build of op in another OS process and books what it executed
// as operation i of the history. ok=false: the child could not be run (the caller falls back
// to a build in this process).
func (h *histRun) buildInChild(i int, op *opSpec) (res *childRes, ok bool) {
	dir := filepath.Dir(h.w.root)
	reqPath, outPath := filepath.Join(dir, fmt.Sprintf("child%d.json", i)), filepath.Join(dir, fmt.Sprintf("child%d.out.json", i))
	req := childReq{Spec: h.p, Root: h.w.root, Home: h.w.home, Label: op.Label, Proc: h.pc, Seed: simrt.Mix(uint64(i)+1, 0xc411d), Out: outPath}
	b, err := json.Marshal(req)
	if err != nil || os.WriteFile(reqPath, b, 0644) != nil {
		return nil, false
	}
	defer os.Remove(reqPath)
	defer os.Remove(outPath)
	cmd := exec.Command(os.Args[0], "-test.run", "^TestVerifChild$", "-test.timeout", "0")
	cmd.Env = append(os.Environ(), "VERIF_CHILD="+reqPath, "VERIF_PROP=")
	if i%2 == 0 {
		// garbage collections all the time (GOGC=1, and a goroutine outside the simulator that
		// collects in a loop): state that depends on an object staying alive - or on an
		// address not being reused - while it is encoded shows
		cmd.Env = append(cmd.Env, "GOGC=1", "VERIF_GC_HAMMER=1")
		h.w.ctx.St.Count("child_builds_under_constant_garbage_collection", 1)
	}
	if err := cmd.Run(); err != nil {
		return nil, false
	}
	ob, err := os.ReadFile(outPath)
	if err != nil {
		return nil, false
	}
	var out childRes
	if json.Unmarshal(ob, &out) != nil {
		return nil, false
	}
	h.w.op = i
	for _, l := range out.Started {
		h.w.log = append(h.w.log, execRec{Seq: h.w.nextSeq(), Build: i, Label: l, Kind: "start", Key: h.keys[l]})
		h.w.log = append(h.w.log, execRec{Seq: h.w.nextSeq(), Build: i, Label: l, Kind: "end", Key: h.keys[l]})
	}
	h.lastProj = nil
	h.codeEdited = false
	h.w.ctx.St.Count("builds_by_another_os_process", 1)
	return &out, true
}
