package dawn

import (
	"bytes"
	"encoding/json"
	"fmt"
	"math/rand/v2"
	"os"
	"path/filepath"
	"strings"

	"verif.local/sim/simcheck"
	"verif.local/sim/simrt"
)

// histScenario: a project, a history of operations, and the simulated-process configuration.
type histScenario struct {
	Spec *projSpec `json:"spec"`
	Ops  []opSpec  `json:"ops"`
	Proc procCfg   `json:"proc"`
	// Only restricts an enumeration (crash point, corruption) to one element, for replays.
	Only *int   `json:"only,omitempty"`
	Mode string `json:"mode,omitempty"`
}

func (sc *histScenario) clone() *histScenario {
	b, _ := json.Marshal(sc)
	var c histScenario
	json.Unmarshal(b, &c)
	if c.Spec != nil && c.Spec.Files == nil {
		c.Spec.Files = map[string]string{}
	}
	return &c
}

func genProc(r *rand.Rand) procCfg {
	pc := procCfg{
		Strategy: []int{simrt.StratUniform, simrt.StratUniform, simrt.StratSticky, simrt.StratSticky, simrt.StratPCT, simrt.StratRoundRobin, simrt.StratFIFO}[r.IntN(7)],
		Sticky:   []int{50, 90, 99}[r.IntN(3)],
		PCTDepth: 1 + r.IntN(3),
		NumCPU:   []int{1, 2, 3, 4, 8, 16}[r.IntN(6)],
	}
	pc.CondAny = r.IntN(4) == 0
	pc.UnlockY = r.IntN(4) == 0
	pc.ReadDirPerm = r.IntN(4) == 0
	pc.SplitWrites = r.IntN(4) == 0
	return pc
}

// histRun executes a history against the real dawn code and keeps the reference model.
type histRun struct {
	w          *world
	p          *projSpec
	prev       map[string]string
	pc         procCfg
	keys       map[string]string
	changedSeq map[string]int
	changedBy  map[string]string
	deletedSeq map[string]int
	cleanup    func()
	prefix     string // tape-name prefix
	lastProj   *Project
	lastArgs   []string
	lastIndex  bool
	codeEdited bool // something other than source files / generated files was edited since the last process
	// keepFailedReload: a project whose Reload failed is kept and reloaded again, as Watch does
	keepFailedReload bool
	lastReloadFailed bool
}

func newHistRun(c *simcheck.Ctx, sc *histScenario) (*histRun, error) {
	w, cleanup, err := newWorld(c)
	if err != nil {
		return nil, err
	}
	if sc.Proc.ViaLink {
		link := w.root + "-link"
		os.Remove(link)
		if err := os.Symlink(w.root, link); err == nil {
			w.root = link
		}
	}
	h := &histRun{w: w, p: sc.clone().Spec, pc: sc.Proc, keys: map[string]string{}, changedSeq: map[string]int{}, changedBy: map[string]string{}, deletedSeq: map[string]int{}, cleanup: cleanup}
	h.prev, err = h.p.sync(w.root, nil)
	if err != nil {
		cleanup()
		return nil, err
	}
	w.bodies = h.p.bodySpecs(w.root)
	w.keyOf = func(l string) string { return h.keys[l] }
	w.exts = func() *projSpec { return h.p }
	h.refreshModel("initial tree")
	return h, nil
}

// refreshModel recomputes every target's input key and stamps the ones that changed.
func (h *histRun) refreshModel(why string) {
	seen := map[string]bool{}
	for i := range h.p.Targets {
		t := &h.p.Targets[i]
		l := t.label()
		seen[l] = true
		k := itemsKey(h.p.inputItems(t))
		if old, ok := h.keys[l]; !ok || old != k {
			h.keys[l] = k
			h.changedSeq[l] = h.w.nextSeq()
			h.changedBy[l] = why
		}
	}
	for l := range h.keys {
		if !seen[l] {
			delete(h.keys, l)
			delete(h.changedSeq, l)
		}
	}
}

// edit applies a non-build operation to the spec, the disk and the model.
func (h *histRun) edit(i int, op *opSpec) error {
	h.w.op = i
	switch op.Op {
	case "wipe-module-cache":
		h.w.wipeCache()
		h.w.ctx.St.Count("module_cache_wiped", 1)
		return nil
	case "delete-source", "restore-deleted-source":
	case "break-source", "restore-source", "edit-source", "touch", "rewrite-same", "dir-add", "dir-remove", "dir-rename", "dir-swap", "dir-move", "dir-lift", "dir-sink", "subdir-rename", "delete-generated", "scribble-generated", "nop":
	default:
		h.codeEdited = true
	}
	if strings.Contains(op.Path, "gdir_") && (strings.HasPrefix(op.Op, "dir-") || op.Op == "subdir-rename") {
		// glob() is evaluated while the BUILD file loads: a project loaded before files were
		// added to or removed from a globbed directory has to be reloaded, as watch mode does
		h.codeEdited = true
	}
	why := fmt.Sprintf("op %d: %s %s%s%s", i, op.Op, op.Item, op.Path, op.Label)
	if h.p.applySpecEdit(op) || h.p.applySpecEdit2(op) {
		var err error
		h.prev, err = h.p.sync(h.w.root, h.prev)
		if err != nil {
			return err
		}
		h.w.bodies = h.p.bodySpecs(h.w.root)
		h.refreshModel(why)
		return nil
	}
	h.p.applyDiskEdit(h.w.root, op)
	if op.Op == "delete-generated" {
		if t := h.p.target(op.Label); t != nil && len(t.Generates) > 0 {
			h.deletedSeq[t.label()] = h.w.nextSeq()
			h.changedBy[t.label()] = why
		}
	}
	return nil
}

func (h *histRun) build(i int, op *opSpec, pc procCfg, hook func(step int, kind, detail string)) *procResult {
	return h.buildNamed(fmt.Sprintf("%sop%d", h.prefix, i), i, op, pc, hook)
}

func (h *histRun) buildNamed(name string, i int, op *opSpec, pc procCfg, hook func(step int, kind, detail string)) *procResult {
	h.w.op = i
	h.w.failing = map[string]bool{}
	for _, f := range op.Fail {
		h.w.failing[f] = true
	}
	h.w.written = map[string]string{}
	bo := buildOpts{Label: op.Label, Always: op.Always, DryRun: op.Dry, Args: h.p.args(), PreferIndex: op.Index, SecondRun: op.Twice,
		LoadOnly: op.Op == "load-only", GC: op.Op == "gc"}
	if op.DryNil {
		bo.DryThenNil = 1 + op.N%2
	}
	bo.GCAfter, bo.SecondPlain, bo.ViaREPL = op.GCAfter, op.SecondPlain, op.REPL
	h.w.replEvents = nil
	h.w.failLate = op.FailLate
	h.w.netFailAt = op.NetFailAt
	if op.Twice && op.Between != nil {
		between := *op.Between
		bo.Between = func() {
			if h.w.running > 0 {
				h.w.ctx.St.Probes["bodies_still_running_when_the_failed_run_returned"]++
			}
			h.edit(i, &between)
			h.w.ctx.St.Count("edits_between_two_runs_of_one_process", 1)
		}
	}
	if op.Keep && h.lastProj != nil && !h.lastReloadFailed && !h.lastIndex && !h.codeEdited && sameArgs(h.lastArgs, bo.Args) {
		bo.Keep = h.lastProj
		h.w.ctx.St.Count("run_again_on_loaded_project", 1)
	} else if op.Reload && h.lastProj != nil && !h.lastIndex && sameArgs(h.lastArgs, bo.Args) {
		// the builtins of the kept Project point at this world already (same histRun)
		bo.Reuse = h.lastProj
		h.w.ctx.St.Count("reload_instead_of_load", 1)
	}
	res := h.w.process(name, pc, bo, hook)
	h.lastProj, h.lastArgs, h.lastIndex = nil, bo.Args, bo.PreferIndex
	h.lastReloadFailed = false
	h.codeEdited = false
	if res.LoadErr == nil && res.Sim.Failure == nil && !res.Sim.Crashed && !res.Sim.Stuck {
		h.lastProj = res.Proj
	} else if h.keepFailedReload && bo.Reuse != nil && res.LoadErr != nil && res.Sim.Failure == nil && !res.Sim.Crashed && !res.Sim.Stuck {
		// (kept only to be reloaded again, as Watch does - nothing runs on a project whose
		// reload failed half-way)
		h.lastProj = bo.Reuse
		h.lastReloadFailed = true
	}
	h.w.ctx.Sim(res.Sim, simcheck.ScenarioHash(h.p), pc.Strategy)
	return res
}

func (h *histRun) lastOK(label string) int {
	last := 0
	for _, r := range h.w.log {
		if r.Label == label && r.Kind == "end" && r.Seq > last {
			last = r.Seq
		}
	}
	return last
}

// lastOKRec returns the record of the last successful execution of label.
func (h *histRun) lastOKRec(label string) *execRec {
	var last *execRec
	for i := range h.w.log {
		r := &h.w.log[i]
		if r.Label == label && r.Kind == "end" && (last == nil || r.Seq > last.Seq) {
			last = r
		}
	}
	return last
}

// startsIn lists the labels whose body started during operation i.
func (h *histRun) startsIn(i int) []string {
	var out []string
	for _, r := range h.w.log {
		if r.Build == i && r.Kind == "start" {
			out = append(out, r.Label)
		}
	}
	return out
}

// checkCurrent is the C01 oracle, evaluated after a build of `label` that reported success:
// every function target in the closure executed successfully after its last input change
// and after the last successful execution of each of its dependencies.
func (h *histRun) checkCurrent(label string) *simcheck.Violation {
	for _, t := range h.p.closure(label) {
		l := t.label()
		rec := h.lastOKRec(l)
		if rec == nil {
			return simcheck.V("stale-never-executed", "build of %s reported success but %s has never executed successfully", label, l)
		}
		ok := rec.Seq
		// content-based: the target is current iff its inputs now are what they were when it
		// last executed successfully (an edit that was undone is not a change)
		if rec.Key != h.keys[l] {
			return simcheck.V("stale-after-input-change", "build of %s reported success but %s has not executed since its inputs changed (%s)", label, l, h.changedBy[l])
		}
		if ok < h.deletedSeq[l] {
			return simcheck.V("stale-after-output-deleted", "build of %s reported success but %s has not executed since its declared output was deleted (%s)", label, l, h.changedBy[l])
		}
		for _, d := range h.p.directDeps(t) {
			if dok := h.lastOK(d.label()); dok > ok {
				return simcheck.V("stale-after-dependency", "build of %s reported success but %s has not executed since its dependency %s last executed successfully", label, l, d.label())
			}
		}
		for _, g := range t.Generates {
			if _, err := os.Stat(filepath.Join(h.w.root, pkgDir(t.Pkg), g)); err != nil {
				return simcheck.V("missing-output", "build of %s reported success but the declared output %s of %s does not exist", label, g, l)
			}
		}
	}
	return nil
}

// compareFromScratch builds the same tree from scratch (no build state, no generated files)
// and compares the generated files of the closure byte for byte.
func (h *histRun) compareFromScratch(label string, tag string) *simcheck.Violation {
	w2, cleanup, err := newWorld(h.w.ctx)
	if err != nil {
		return simcheck.V(simcheck.EngineError, "scratch: %v", err)
	}
	defer cleanup()
	gen := map[string]bool{}
	for i := range h.p.Targets {
		for _, g := range h.p.Targets[i].Generates {
			gen[filepath.Clean(filepath.Join(pkgDir(h.p.Targets[i].Pkg), g))] = true
		}
	}
	if err := copyTree(h.w.root, w2.root, func(rel string) bool { return rel == ".dawn" || gen[rel] }); err != nil {
		return simcheck.V(simcheck.EngineError, "copy: %v", err)
	}
	w2.bodies = h.p.bodySpecs(w2.root)
	w2.exts = h.w.exts
	pc := h.pc
	pc.CrashAt, pc.IOErrAt = 0, nil
	res := w2.process(fmt.Sprintf("%sscratch-%s", h.prefix, tag), pc, buildOpts{Label: label, Args: h.p.args()}, nil)
	h.w.ctx.Sim(res.Sim, simcheck.ScenarioHash(h.p), pc.Strategy)
	if res.Sim.Stuck {
		return simcheck.V(simcheck.EngineError, "watchdog in from-scratch build")
	}
	if res.Sim.Failure != nil || res.LoadErr != nil || res.RunErr != nil {
		h.w.ctx.St.Count("from_scratch_build_failed", 1)
		return nil
	}
	h.w.ctx.St.Count("from_scratch_comparisons", 1)
	for _, t := range h.p.closure(label) {
		for _, g := range t.Generates {
			rel := filepath.Join(pkgDir(t.Pkg), g)
			a, errA := os.ReadFile(filepath.Join(h.w.root, rel))
			b, errB := os.ReadFile(filepath.Join(w2.root, rel))
			if errA != nil || errB != nil || !bytes.Equal(a, b) {
				return simcheck.V("differs-from-scratch", "after an incremental build of %s the generated file %s of %s differs from a from-scratch build of the same tree", label, rel, t.label())
			}
		}
	}
	return nil
}

func sameArgs(a, b []string) bool {
	if len(a) != len(b) {
		return false
	}
	for i := range a {
		if a[i] != b[i] {
			return false
		}
	}
	return true
}

// procFailure classifies simulator-level failures of a simulated process.
func procFailure(res *procResult) *simcheck.Violation {
	if res.Sim.Stuck {
		return simcheck.V(simcheck.EngineError, "watchdog: simulated process blocked outside the simulator")
	}
	if f := res.Sim.Failure; f != nil {
		switch f.Kind {
		case simrt.FailPanic, simrt.FailFatal:
			return simcheck.V("panic", "%s: %s\n%s", f.Kind, f.Msg, trimStack(f.Stack))
		case simrt.FailDeadlock:
			return simcheck.V("deadlock", "%s [%s]", f.Msg, f.Gs)
		case simrt.FailBudget:
			return simcheck.V("no-termination", "%s [%s]", f.Msg, f.Gs)
		}
	}
	return nil
}

func trimStack(s string) string {
	lines := strings.Split(s, "\n")
	var keep []string
	for _, l := range lines {
		if strings.Contains(l, "/repo/") || strings.Contains(l, "dawn") {
			keep = append(keep, strings.TrimSpace(l))
		}
		if len(keep) > 12 {
			break
		}
	}
	return strings.Join(keep, " | ")
}
