package dawn

// C18 — build events and target output follow a well-formed protocol.

import (
	"fmt"
	"math/rand/v2"
	"strings"

	"github.com/pgavlin/dawn/runner"
	"verif.local/sim/simcheck"
)

func c18Gen(r *rand.Rand, tier string) any {
	o := defaultGenOpts(tier)
	sc := &histScenario{Spec: genProject(r, o), Proc: genProc(r)}
	p := sc.Spec
	// richer output texts
	for i := range p.Targets {
		if r.IntN(2) == 0 {
			p.Targets[i].Text = textPool[r.IntN(len(textPool))]
		}
	}
	// graph hazards: a dependency cycle, an unknown dependency
	switch r.IntN(6) {
	case 0:
		if len(p.Targets) >= 2 {
			a, b := r.IntN(len(p.Targets)), r.IntN(len(p.Targets))
			p.Targets[a].Deps = append(p.Targets[a].Deps, p.Targets[b].label())
			p.Targets[b].Deps = append(p.Targets[b].Deps, p.Targets[a].label())
			sc.Mode = "cycle"
		}
	case 1:
		a := r.IntN(len(p.Targets))
		dep := "//:nope"
		if r.IntN(2) == 0 {
			// a package label without a target name is not a target either
			dep = []string{"//a", "//c", "//a/b", "//a/zz:default", "//zz:default"}[r.IntN(5)]
		}
		p.Targets[a].Deps = append(p.Targets[a].Deps, dep)
		sc.Mode = "unknown"
	}
	shadow := sc.clone().Spec
	n := 2 + r.IntN(4)
	for i := 0; i < n; i++ {
		if i > 0 {
			for k := 0; k < r.IntN(3); k++ {
				op := genSemanticEdit(r, shadow, 10*i+k+1)
				if op.Op == "add-dep" || op.Op == "remove-dep" {
					continue
				}
				shadow.applySpecEdit(op)
				sc.Ops = append(sc.Ops, *op)
			}
		}
		op := opSpec{Op: "build", Label: pickLabel(r, shadow)}
		op.Always = r.IntN(6) == 0
		op.Dry = r.IntN(8) == 0
		op.Twice = r.IntN(5) == 0 && sc.Mode != "cycle"
		op.Reload = r.IntN(6) == 0
		if r.IntN(5) == 0 && !op.Twice {
			op.N = 1 + r.IntN(120) // this I/O operation of the process fails
		}
		if r.IntN(4) == 0 {
			for ti := range shadow.Targets {
				if r.IntN(4) == 0 {
					op.Fail = append(op.Fail, shadow.Targets[ti].label())
				}
			}
		}
		if r.IntN(8) == 0 && sc.Mode != "cycle" {
			// REPL / watch: a dry run with options, (N=1: a Reload,) then Run with nil options on
			// the same loaded project
			op = opSpec{Op: "build", Label: op.Label, DryNil: true, N: r.IntN(2), Fail: op.Fail}
		}
		if r.IntN(7) == 0 && !op.DryNil && !op.Reload {
			// the REPL: run(label, always=, dry_run=, callback=f) - the events reach a Starlark
			// callback through the channel-based adapter in events.go
			op.REPL, op.N = true, 0
		}
		if r.IntN(14) == 0 {
			// a typo on the command line: the requested label names no target
			op.Label = []string{"//:no_such_target", "//no_such_pkg:default", ":no_such"}[r.IntN(3)]
			op.Fail = nil
		}
		sc.Ops = append(sc.Ops, op)
		if op.Dry && !op.Twice && op.N == 0 && r.IntN(2) == 0 {
			// the real build of the same tree right after the dry run
			sc.Ops = append(sc.Ops, opSpec{Op: "build", Label: op.Label, Always: op.Always, Fail: op.Fail})
		}
	}
	return sc
}

func expectedLines(text string) []string {
	if text == "" {
		return nil
	}
	lines := strings.Split(text, "\n")
	if strings.HasSuffix(text, "\n") {
		lines = lines[:len(lines)-1]
	}
	return lines
}

// checkRunEvents checks the events of one Run (between two RunDone events).
func checkRunEvents(h *histRun, op *opSpec, evs []eventRec, runErr error, written map[string]string, started map[string]int, dry bool, ioFault bool) *simcheck.Violation {
	words := map[string][]eventRec{}
	var order []string
	runDone := 0
	lastSeq := map[string]int{}
	var doneRec eventRec
	for _, e := range evs {
		switch e.Kind {
		case "RunDone":
			runDone++
			doneRec = e
		case "TargetUpToDate", "TargetEvaluating", "TargetSucceeded", "TargetFailed", "Print":
			if _, ok := words[e.Label]; !ok {
				order = append(order, e.Label)
			}
			words[e.Label] = append(words[e.Label], e)
			lastSeq[e.Label] = e.Seq
		}
	}
	if runDone != 1 {
		return simcheck.V("run-done-count", "build of %s delivered %d run-done events", op.Label, runDone)
	}
	if (doneRec.Err == nil) != (runErr == nil) || (runErr != nil && doneRec.Err != runErr) {
		return simcheck.V("run-done-error", "run-done carried %v but the build returned %v", doneRec.Err, runErr)
	}
	// A build that fails on a dependency cycle returns while other targets are still
	// finishing: their remaining events arrive after run-done (or not at all before the
	// next event is looked at), so only the requested target's word is complete by then.
	cyclicRun := false
	for _, e := range evs {
		if _, ok := e.Err.(runner.CyclicDependencyError); ok && e.Kind == "TargetFailed" {
			cyclicRun = true
		}
	}
	for _, l := range order {
		if cyclicRun && l != op.Label {
			continue
		}
		w := words[l]
		var kinds []string
		for _, e := range w {
			kinds = append(kinds, strings.TrimPrefix(e.Kind, "Target"))
		}
		word := strings.Join(kinds, " ")
		bad := func(why string) *simcheck.Violation {
			return simcheck.V("event-word", "events of %s in a build of %s are [%s]: %s", l, op.Label, word, why)
		}
		switch w[0].Kind {
		case "TargetUpToDate":
			if len(w) != 1 {
				return bad("an up-to-date event must be the target's only event")
			}
		case "TargetFailed":
			if len(w) != 1 {
				return bad("a lone failed event must be the target's only event")
			}
			err := w[0].Err
			_, cyc := err.(runner.CyclicDependencyError)
			missing := err != nil && strings.Contains(err.Error(), "missing dependency")
			if !cyc && !missing && !ioFault && !fingerprintError(err) && !(err != nil && strings.Contains(err.Error(), "no such file")) {
				return bad(fmt.Sprintf("a failed event without an evaluating event requires a missing or cyclic dependency, got %v", err))
			}
			if t := h.p.target(l); missing && !ioFault && t != nil {
				// ... a dependency of this very target: what depends on a target that failed
				// for want of a dependency reports nothing of its own
				own := false
				for _, d := range t.Deps {
					own = own || h.p.resolve(d) == nil
				}
				if !own {
					return bad(fmt.Sprintf("every dependency this target names exists, yet it reports %v", err))
				}
			}
		case "TargetEvaluating":
			last := w[len(w)-1].Kind
			if last != "TargetSucceeded" && last != "TargetFailed" {
				return bad("evaluating must be followed by exactly one succeeded or failed event")
			}
			for _, e := range w[1 : len(w)-1] {
				if e.Kind != "Print" {
					return bad("only output lines may come between evaluating and completion")
				}
			}
		default:
			return bad("output or completion without an evaluating event")
		}
		// output lines
		var got []string
		for _, e := range w {
			if e.Kind == "Print" {
				got = append(got, e.Text)
			}
		}
		if !strings.HasPrefix(l, "source:") && h.p.target(l) != nil {
			want := expectedLines(written[l])
			if strings.Join(got, "\x00") != strings.Join(want, "\x00") || len(got) != len(want) {
				return simcheck.V("output-lines", "target %s wrote %q but the lines delivered are %q (expected %q)", l, written[l], got, want)
			}
			evaluating := w[0].Kind == "TargetEvaluating"
			// (an injected I/O error between the evaluating event and the body keeps the body from running)
			if !dry && !ioFault && evaluating != (started[l] > 0) {
				return simcheck.V("evaluating-vs-body", "target %s: evaluating reported = %v but its body ran %d times", l, evaluating, started[l])
			}
			if dry && started[l] > 0 {
				return simcheck.V("evaluating-vs-body", "dry run executed the body of %s", l)
			}
		}
	}
	for l, n := range started {
		if n > 1 {
			return simcheck.V("body-ran-twice", "the body of %s ran %d times in one build", l, n)
		}
		if _, ok := words[l]; !ok && n > 0 {
			return simcheck.V("evaluating-vs-body", "the body of %s ran but no event was reported for it", l)
		}
	}
	// run-done comes after the requested target's last event
	root := op.Label
	if t := h.p.resolve(op.Label); t != nil && t.label() != op.Label {
		root = op.Label // the alias has its own events
	}
	if s, ok := lastSeq[root]; ok && s > doneRec.Seq {
		return simcheck.V("run-done-order", "run-done was delivered before the last event of the requested target %s", root)
	}
	return nil
}

// checkReplEvents: the protocol as a Starlark callback sees it (event structs handed over by
// the adapter behind the REPL's run builtin). Output lines do not travel this way (the line
// writers keep the event sink of the load), so the words are over the target events only.
func checkReplEvents(h *histRun, op *opSpec, evs []eventRec, runErr error) *simcheck.Violation {
	words := map[string][]string{}
	var order []string
	runDone, doneAt := 0, -1
	lastAt := map[string]int{}
	cyclicRun := false
	for i, e := range evs {
		switch e.Kind {
		case "RunDone":
			runDone++
			doneAt = i
			if e.Text != errText(runErr) {
				return simcheck.V("run-done-error", "the callback's run-done carried %q but run() returned %q", e.Text, errText(runErr))
			}
		case "Print":
		default:
			if _, ok := words[e.Label]; !ok {
				order = append(order, e.Label)
			}
			words[e.Label] = append(words[e.Label], strings.TrimPrefix(e.Kind, "Target"))
			lastAt[e.Label] = i
			if strings.Contains(e.Text, "cyclic dependency") {
				cyclicRun = true
			}
		}
	}
	if runDone != 1 {
		return simcheck.V("run-done-count", "run(%s, callback=...) delivered %d run-done events to the callback", op.Label, runDone)
	}
	for _, l := range order {
		if cyclicRun && l != op.Label {
			continue
		}
		switch word := strings.Join(words[l], " "); word {
		case "UpToDate", "Evaluating Succeeded", "Evaluating Failed", "Failed":
		default:
			return simcheck.V("event-word", "events of %s handed to the callback of run(%s, callback=...) are [%s]: a target produces one up-to-date event, or evaluating followed by one succeeded or failed event, or a lone failed event", l, op.Label, word)
		}
	}
	if at, ok := lastAt[op.Label]; ok && at > doneAt {
		return simcheck.V("run-done-order", "run-done reached the callback before the last event of the requested target %s", op.Label)
	}
	return nil
}

func c18Exec(scAny any, c *simcheck.Ctx) *simcheck.Violation {
	sc := scAny.(*histScenario)
	if sc.Spec == nil || len(sc.Spec.Targets) == 0 {
		return nil
	}
	var dryEval map[string]bool
	dryAt := -2
	each := func(h *histRun, i int, op *opSpec, res *procResult) *simcheck.Violation {
		if op.Op != "build" || !res.Ran {
			return nil
		}
		if op.REPL {
			// one or two run() calls on the loaded project: the callback's stream is cut at run-done
			var runs [][]eventRec
			var cur []eventRec
			for _, e := range h.w.replEvents {
				cur = append(cur, e)
				if e.Kind == "RunDone" {
					runs = append(runs, cur)
					cur = nil
				}
			}
			want := 1
			if op.Twice {
				want = 2
			}
			if len(runs) != want || len(cur) > 0 {
				for _, e := range cur {
					if e.Label != op.Label {
						return nil // late events of other targets after a cyclic failure: not attributable
					}
				}
				return simcheck.V("run-done-count", "%d run() call(s) with a callback delivered %d run-done events (and %d events after the last)", want, len(runs), len(cur))
			}
			for ri, evs := range runs {
				c.St.Count("runs_through_the_repl_builtin_checked", 1)
				runErr := res.RunErr
				if op.Twice && ri == 0 {
					runErr = res.FirstRunErr
				}
				if v := checkReplEvents(h, op, evs, runErr); v != nil {
					if op.Twice {
						v.Msg = fmt.Sprintf("(run() call %d of 2 on one loaded project) %s", ri+1, v.Msg)
					}
					return v
				}
			}
			return nil
		}
		// "evaluating is reported exactly when the body runs (or would, in a dry run)"
		if op.Dry && !op.Twice && op.N == 0 && res.RunErr == nil {
			dryEval, dryAt = map[string]bool{}, i
			for _, e := range h.w.events {
				if e.Kind == "TargetEvaluating" && h.p.target(e.Label) != nil {
					dryEval[e.Label] = true
				}
			}
		} else if !op.Dry && dryAt == i-1 && i > 0 && sc.Ops[i-1].Label == op.Label && sc.Ops[i-1].Always == op.Always && len(op.Fail) == 0 && res.RunErr == nil && !op.Reload {
			ran := map[string]bool{}
			for _, l := range h.startsIn(i) {
				ran[l] = true
			}
			if setString(ran) != setString(dryEval) {
				return simcheck.V("dry-evaluating-vs-body", "a dry run of %s reported evaluating for {%s} but the real build of the same tree ran the bodies of {%s}", op.Label, setString(dryEval), setString(ran))
			}
			c.St.Count("dry_vs_real_compared", 1)
		}
		// split the event stream at RunDone (a second Run on the same project follows the first)
		var runs [][]eventRec
		var cur []eventRec
		for _, e := range h.w.events {
			cur = append(cur, e)
			if e.Kind == "RunDone" {
				runs = append(runs, cur)
				cur = nil
			}
		}
		// Events of other targets may arrive after run-done (a build that fails on a cycle
		// returns while unrelated targets are still finishing); only the requested target's
		// events must all precede it.
		for _, e := range cur {
			if (strings.HasPrefix(e.Kind, "Target") || e.Kind == "Print") && e.Label == op.Label {
				return simcheck.V("run-done-order", "event %s of the requested target %s was delivered after run-done", e.Kind, e.Label)
			}
		}
		if len(cur) > 0 {
			c.St.Count("events_after_run_done_of_other_targets", 1)
			if op.Twice || op.DryNil {
				return nil // late events of the first run would be attributed to the second
			}
		}
		want := 1
		if op.Twice || op.DryNil {
			want = 2
		}
		if len(runs) != want {
			return simcheck.V("run-done-count", "%d builds delivered %d run-done events", want, len(runs))
		}
		// body starts and written text per run: records between the runs' sequence numbers
		lo := 0
		for ri, evs := range runs {
			hi := evs[len(evs)-1].Seq
			started := map[string]int{}
			for _, r := range h.w.log {
				if r.Build == i && r.Kind == "start" && r.Seq > lo && r.Seq < hi {
					started[r.Label]++
				}
			}
			written := map[string]string{}
			for l := range started {
				if b := h.w.bodies[l]; b != nil {
					written[l] = b.Text
				}
			}
			runErr := res.RunErr
			if (op.Twice || op.DryNil) && ri == 0 {
				runErr = res.FirstRunErr
			}
			c.St.Count("runs_checked", 1)
			dry := op.Dry || (op.DryNil && ri == 0)
			if op.DryNil {
				c.St.Count("dry_then_nil_options_runs_checked", 1)
			}
			if v := checkRunEvents(h, op, evs, runErr, written, started, dry, !op.DryNil && res.Sim.IOOps >= op.N && op.N > 0 && len(res.Sim.FaultsHit) > 0); v != nil {
				if op.DryNil {
					v.Msg = fmt.Sprintf("(run %d of: dry run, then Run with nil options, on one loaded project) %s", ri+1, v.Msg)
				}
				if op.Twice {
					v.Msg = fmt.Sprintf("(run %d of 2 on one loaded project) %s", ri+1, v.Msg)
				}
				return v
			}
			lo = hi
		}
		return nil
	}
	ioErrOps = true
	defer func() { ioErrOps = false }()
	_, _, v, _ := runHistory(c, sc, "", nil, each)
	return v
}
