package dawn

// Required projects: the root project's dawn.toml names other projects at versions; their
// modules are loaded with load("<alias>//:lib.dawn", ...). dawn computes the build list
// (minimal version selection), fetches each selected project into the module cache
// ($HOME/.dawn/modules/cache/<path>@<version>) and loads modules from there. The network is
// the only stub: repositories are served by extRepo through the dial seam (harness/mvs/
// hook.go); resolver, fetch, temp-dir + rename into the cache and module loading are dawn's.

import (
	"context"
	"errors"
	"fmt"
	"iter"
	"os"
	"path/filepath"
	"sort"
	"strings"
	"time"

	"github.com/pgavlin/dawn/internal/mvs"
	"github.com/pgavlin/dawn/internal/vcs"
	xmodule "golang.org/x/mod/module"
)

var extVersions = []string{"v1.0.0", "v1.1.0", "v1.2.0"}

// extSpec is one project the root (or another required project) requires.
type extSpec struct {
	Sel    int       `json:"sel"`              // version (index into extVersions) the root requires; -1: the root does not require it directly
	Val    valueSpec `json:"val"`              // EXT<i>_K in lib.dawn (its V moves with the version)
	Lit    valueSpec `json:"lit"`              // a literal in ext<i>_f
	Loads  int       `json:"loads"`            // -1, or the index of another required project whose lib.dawn this one loads
	Util   bool      `json:"util,omitempty"`   // lib.dawn loads a second module of its own project ("//:util.dawn")
	Yields int       `json:"yields,omitempty"` // sim_yield() calls at the top of lib.dawn
	Same   bool      `json:"same,omitempty"`   // every version has the same content
	Fails  bool      `json:"fails,omitempty"`  // lib.dawn fails while loading
	// ViaGlobal: the helper reaches the project it loads only through a module global that
	// was computed while lib.dawn loaded, not by calling the loaded helper itself.
	ViaGlobal bool `json:"via_global,omitempty"`
	// AltDep (k > 0): the odd versions of this project require and load project k-1 instead of
	// Loads, under the same alias ("dep"): one name, another project behind it.
	AltDep int `json:"alt_dep,omitempty"`
	// Flag: lib.dawn declares a flag while it loads (parse_flag): a module of a required
	// project may add to what the root project offers.
	Flag bool `json:"flag,omitempty"`
}

// extDep: the project that version v of project i requires and loads (-1: none).
func (p *projSpec) extDep(i, v int) int {
	e := &p.Exts[i]
	if e.Loads >= 0 && e.AltDep > 0 && e.AltDep-1 < len(p.Exts) && v%2 == 1 {
		return e.AltDep - 1
	}
	if e.Loads >= len(p.Exts) {
		return -1
	}
	return e.Loads
}

// extTwin is the index of the project that is the next major version (v2) of project 0: the
// same repository, the path github.com/verif/ext0@v2, versions v2.x.0, and a lib.dawn of its
// own. A project has it if it has that many required projects.
const extTwin = 3

func extPath(i int) string {
	if i == extTwin {
		return "github.com/verif/ext0@v2"
	}
	return fmt.Sprintf("github.com/verif/ext%d", i)
}

// extVersion is version v (index) of project i.
func extVersion(i, v int) string {
	if i == extTwin {
		return "v2" + strings.TrimPrefix(extVersions[v], "v1")
	}
	return extVersions[v]
}

// extRepoOf is the project whose repository serves project i.
func extRepoOf(i int) int {
	if i == extTwin {
		return 0
	}
	return i
}
func extAlias(i int) string { return fmt.Sprintf("ext%d", i) }

// extLabel is how dawn names the module lib.dawn of required project i.
func extLabel(i int) string { return extPath(i) + "//:lib.dawn" }

// extDepVersion: the version of project j that version v of project i requires.
// (Not monotone in v for any pair: somewhere an older version of i requires a higher version
// of j than a newer one does, so the requirements of superseded versions matter.)
func extDepVersion(i, v, j int) int { return (2*v + i + j) % len(extVersions) }

// extSelected is the model's build list: per required project the selected version index
// (the maximum any selected requirer asks for), -1 if nothing requires it.
func (p *projSpec) extSelected() []int {
	sel := make([]int, len(p.Exts))
	for i := range sel {
		sel[i] = -1
	}
	type node struct{ i, v int }
	var queue []node
	seen := map[node]bool{}
	push := func(n node) {
		if n.i < 0 || n.i >= len(p.Exts) || seen[n] {
			return
		}
		seen[n] = true
		queue = append(queue, n)
	}
	for i, e := range p.Exts {
		if e.Sel >= 0 {
			push(node{i, e.Sel})
		}
	}
	for len(queue) > 0 {
		n := queue[0]
		queue = queue[1:]
		if n.v > sel[n.i] {
			sel[n.i] = n.v
		}
		if j := p.extDep(n.i, n.v); j >= 0 {
			push(node{j, extDepVersion(n.i, n.v, j)})
		}
	}
	return sel
}

func (e *extSpec) valAt(v int) valueSpec {
	if e.Same {
		v = 0
	}
	return valueSpec{Kind: e.Val.Kind, V: e.Val.V + 7*v}
}

func (e *extSpec) litAt(v int) valueSpec {
	if e.Same {
		v = 0
	}
	return valueSpec{Kind: e.Lit.Kind, V: e.Lit.V + 7*v}
}

// extFiles renders version v of required project i.
func (p *projSpec) extFiles(i, v int) map[string]string {
	e := &p.Exts[i]
	out := map[string]string{}
	var toml strings.Builder
	fmt.Fprintf(&toml, "name = '%s'\n", extAlias(i))
	if j := p.extDep(i, v); j >= 0 {
		fmt.Fprintf(&toml, "\n[requirements]\ndep = {path = '%s', version = '%s'}\n", extPath(j), extVersion(j, extDepVersion(i, v, j)))
	}
	out["dawn.toml"] = toml.String()
	var sb strings.Builder
	fmt.Fprintf(&sb, "# lib.dawn of %s\n", extPath(i))
	if j := p.extDep(i, v); j >= 0 {
		// (every lib.dawn exports its helper under the common name ext_f too, so that the
		// load statement reads the same whichever project is behind the alias)
		_ = j
		sb.WriteString("load(\"dep//:lib.dawn\", dep_f = \"ext_f\")\n")
	}
	if e.Util {
		fmt.Fprintf(&sb, "load(\"//:util.dawn\", \"EXT%d_U\")\n", i)
		out["util.dawn"] = fmt.Sprintf("EXT%d_U = %s\n", i, e.litAt(v).render())
	}
	for k := 0; k < e.Yields; k++ {
		sb.WriteString("sim_yield()\n")
	}
	if e.Fails {
		fmt.Fprintf(&sb, "fail(\"lib.dawn of %s is broken\")\n", extPath(i))
	}
	if e.Flag {
		fmt.Fprintf(&sb, "EXT%d_FLAG = parse_flag(\"extopt%d\", default=\"d%d\")\n", i, i, i)
	}
	fmt.Fprintf(&sb, "EXT%d_K = %s\n", i, e.valAt(v).render())
	parts := []string{e.litAt(v).render(), fmt.Sprintf("EXT%d_K", i)}
	if j := p.extDep(i, v); j >= 0 {
		// a global of this module computed while it loads from what the other project
		// provides: its value depends on the version the build list selects for that project,
		// not on this module's text
		fmt.Fprintf(&sb, "EXT%d_D = [dep_f(), %d]\n", i, i)
		if !e.ViaGlobal {
			parts = append(parts, "dep_f()")
		}
		parts = append(parts, fmt.Sprintf("EXT%d_D", i))
	}
	sb.WriteString("\n")
	if e.Util {
		parts = append(parts, fmt.Sprintf("EXT%d_U", i))
	}
	fmt.Fprintf(&sb, "def ext%d_f(n = 0):\n    return (%s,)\n\next_f = ext%d_f\nEXT_K = EXT%d_K\n", i, strings.Join(parts, ", "), i, i)
	out["lib.dawn"] = sb.String()
	return out
}

// rootToml is the root project's dawn.toml.
func (p *projSpec) rootToml() string {
	var sb strings.Builder
	first := true
	for i, e := range p.Exts {
		if e.Sel < 0 {
			continue
		}
		if first {
			sb.WriteString("[requirements]\n")
			first = false
		}
		fmt.Fprintf(&sb, "%s = {path = '%s', version = '%s'}\n", extAlias(i), extPath(i), extVersion(i, e.Sel))
	}
	return sb.String()
}

// extItems adds to out the model's input items of a reference to required project i
// (kind "extconst": its constant; "extfunc": the helper and everything it reaches).
func (p *projSpec) extItems(i int, fn bool, out map[string]string, seen map[int]bool) {
	if i < 0 || i >= len(p.Exts) || seen[i] {
		return
	}
	seen[i] = true
	sel := p.extSelected()
	v := sel[i]
	if v < 0 {
		return
	}
	e := &p.Exts[i]
	out[fmt.Sprintf("extval|%d", i)] = e.valAt(v).render()
	if !fn {
		return
	}
	out[fmt.Sprintf("extlit|%d", i)] = e.litAt(v).render()
	out[fmt.Sprintf("extshape|%d", i)] = fmt.Sprintf("%d/%v/%v", p.extDep(i, v), e.Util, e.ViaGlobal)
	if j := p.extDep(i, v); j >= 0 {
		p.extItems(j, true, out, seen)
	}
}

// extGraph adds the required projects' modules to the model's load graph.
func (p *projSpec) extGraph(g map[string][]string) {
	sel := p.extSelected()
	for i, e := range p.Exts {
		n := extLabel(i)
		if sel[i] < 0 {
			continue
		}
		if j := p.extDep(i, sel[i]); j >= 0 {
			g[n] = append(g[n], extLabel(j))
		}
		if e.Util {
			g[n] = append(g[n], extPath(i)+"//:util.dawn")
		}
	}
}

// ---------------------------------------------------------------- the network

// curWorld is the world of the simulated process that is running (one at a time per worker).
var curWorld *world

func init() {
	mvs.VerifDial = func(ctx context.Context, address string) (vcs.Repository, error) {
		w := curWorld
		if w == nil || w.exts == nil {
			return nil, errors.New("no reachable repository (no simulated network)")
		}
		return w.dial(address)
	}
}

// netFault decides whether repository operation number k of this process fails.
func (w *world) netFault(op, detail string) error {
	w.netOps++
	if w.sim != nil {
		w.sim.Yield("net."+op, detail)
	}
	if w.netFailAt > 0 && w.netOps == w.netFailAt {
		w.ctx.St.Faults["network_"+op]++
		w.netFaults++
		return fmt.Errorf("simulated network failure in %s %s", op, detail)
	}
	return nil
}

func (w *world) dial(address string) (vcs.Repository, error) {
	if err := w.netFault("dial", address); err != nil {
		return nil, err
	}
	p := w.exts()
	for i := range p.Exts {
		if i != extTwin && extPath(i) == address {
			w.ctx.St.Count("repository_dials", 1)
			return &extRepo{w: w, i: i}, nil
		}
	}
	return nil, fmt.Errorf("no reachable repository at %s", address)
}

type extRepo struct {
	w *world
	i int
}

type extRevision struct{ id string }

func (r extRevision) ID() string       { return r.id }
func (r extRevision) PseudoID() string { return r.id[:12] }
func (r extRevision) When() time.Time  { return time.Unix(1700000000, 0) }
func (r extRevision) History() iter.Seq[vcs.Revision] {
	return func(yield func(vcs.Revision) bool) { yield(r) }
}

func extRevID(i, v int) string { return fmt.Sprintf("%040x", 0x1000+i*16+v) }

func (r *extRepo) Path() string { return extPath(r.i) }

// served lists the projects this repository holds (project 0's also holds its v2).
func (r *extRepo) served() []int {
	if r.i == 0 && len(r.w.exts().Exts) > extTwin {
		return []int{0, extTwin}
	}
	return []int{r.i}
}
func (r *extRepo) DefaultRef(ctx context.Context) (string, error) {
	return "refs/heads/main", nil
}
func (r *extRepo) Versions(ctx context.Context) ([]*vcs.Version, error) {
	if err := r.w.netFault("versions", extPath(r.i)); err != nil {
		return nil, err
	}
	var out []*vcs.Version
	for _, i := range r.served() {
		for v := range extVersions {
			out = append(out, &vcs.Version{Version: xmodule.Version{Path: extPath(i), Version: extVersion(i, v)}, ProjectPath: "", RevisionID: extRevID(i, v)})
		}
	}
	return out, nil
}
func (r *extRepo) ResolveRef(ctx context.Context, ref string) (string, error) {
	return extRevID(r.i, len(extVersions)-1), nil
}
func (r *extRepo) GetRevision(ctx context.Context, id string) (vcs.Revision, error) {
	if err := r.w.netFault("get-revision", id); err != nil {
		return nil, err
	}
	for _, i := range r.served() {
		for v := range extVersions {
			if extRevID(i, v) == id {
				return extRevision{id}, nil
			}
		}
	}
	return nil, fmt.Errorf("no such revision %s", id)
}
func (r *extRepo) FetchRevision(ctx context.Context, projectPath string, revision vcs.Revision, destDir string) error {
	p := r.w.exts()
	for k := 0; k < len(r.served())*len(extVersions); k++ {
		i, v := r.served()[k/len(extVersions)], k%len(extVersions)
		if extRevID(i, v) != revision.ID() {
			continue
		}
		files := p.extFiles(i, v)
		names := make([]string, 0, len(files))
		for n := range files {
			names = append(names, n)
		}
		sort.Strings(names)
		for _, n := range names {
			// the checkout arrives file by file; another loader may run in between
			if err := r.w.netFault("fetch", extPath(r.i)+"/"+n); err != nil {
				return err
			}
			if err := os.WriteFile(filepath.Join(destDir, n), []byte(files[n]), 0644); err != nil {
				return err
			}
		}
		r.w.ctx.St.Count("project_versions_fetched", 1)
		return nil
	}
	return fmt.Errorf("no such revision %s", revision.ID())
}

// moduleCacheDir is where dawn keeps version v of required project i.
func (w *world) moduleCacheDir(i, v int) string {
	return filepath.Join(w.home, ".dawn", "modules", "cache", extPath(extRepoOf(i))+"@"+extVersion(i, v))
}

// warmCache fills the module cache as an earlier dawn process would have left it.
func (w *world) warmCache(p *projSpec, only func(i, v int) bool) {
	for i := range p.Exts {
		for v := range extVersions {
			if only != nil && !only(i, v) {
				continue
			}
			dir := w.moduleCacheDir(i, v)
			os.MkdirAll(dir, 0755)
			for n, c := range p.extFiles(i, v) {
				os.WriteFile(filepath.Join(dir, n), []byte(c), 0644)
			}
		}
	}
}

// wipeCache empties the module cache (a cache is allowed to disappear at any time).
func (w *world) wipeCache() {
	os.RemoveAll(filepath.Join(w.home, ".dawn", "modules"))
}
