package dawn

// Project specifications: data from which BUILD.dawn files, helper modules and source
// files are rendered. Every semantic item a target function can reference has an explicit
// value with a version, so that "edit this item" is an operation on data and the
// reference model (model.go) can say exactly which targets' inputs changed.

import (
	"fmt"
	"math/rand/v2"
	"os"
	"path/filepath"
	"sort"
	"strings"
)

// ---------------------------------------------------------------- values

type valueSpec struct {
	Kind string `json:"kind"`
	V    int    `json:"v"`
}

var intPool = []string{"0", "1", "-1", "255", "256", "257", "65535", "65536", "65537", "2147483647", "2147483648", "-2147483648", "-2147483649",
	"4294967295", "4294967296", "9223372036854775807", "9223372036854775808", "-9223372036854775808", "18446744073709551616", "123456789012345678901234567890"}

var valueKinds = []string{"int", "int", "int", "str", "str", "bytes", "float", "bool", "list", "tuple", "dict", "set", "nested", "numtype", "strbytes", "big", "strlen", "shared", "booltype", "tupslice", "memo255"}

// render gives a Starlark expression; different V always gives a different value.
func (v valueSpec) render() string {
	n := v.V
	switch v.Kind {
	case "int":
		return intPool[((n%len(intPool))+len(intPool))%len(intPool)]
	case "str":
		return fmt.Sprintf("%q", fmt.Sprintf("s%d-ü", n))
	case "bytes":
		return fmt.Sprintf("b\"b%d\\x00\\xff\"", n)
	case "float":
		return fmt.Sprintf("%d.5", n)
	case "bool":
		if n%2 == 0 {
			return "True"
		}
		return "False"
	case "list":
		return fmt.Sprintf("[1, %d, \"x\"]", n)
	case "tuple":
		return fmt.Sprintf("(%d, None, 2.5, True)", n)
	case "dict":
		return fmt.Sprintf("{\"k\": %d, 7: \"v%d\"}", n, n)
	case "set":
		// (strings of 12 bytes and more are hashed with a seed the Go runtime draws per process)
		return fmt.Sprintf("set([1, %d, \"z\", \"a string of some length %d\", \"another string, longer than twelve bytes\", \"third-long-string-%d\"])", 1000+n, n, n)
	case "nested":
		return fmt.Sprintf("{\"a\": [%d, (1, 2), {\"b\": [%d]}], \"c\": (3, [4, %d])}", n, n+1, n+2)
	case "shared":
		return fmt.Sprintf("(lambda s: [s, s, {\"s\": s}])([%d])", n)
	case "big":
		sizes := []int{999, 1000, 1001, 2500}
		return fmt.Sprintf("(\"head\", list(range(%d)) + [%d], \"tail\")", sizes[((n%4)+4)%4], n)
	case "sizes":
		sizes := []int{0, 1, 2, 3, 4, 999, 1000, 1001, 2500}
		k := sizes[((n%9)+9)%9]
		return fmt.Sprintf("[list(range(%d)), {\"d\": {i: str(i) for i in range(%d)}}, (set(range(%d)), %d)]", k, k, k, n)
	case "bigdict":
		sizes := []int{1000, 1001, 2001}
		return fmt.Sprintf("[%d, {i: i for i in range(%d)}, \"after\"]", n, sizes[((n%3)+3)%3])
	case "bigset":
		sizes := []int{1000, 1001, 2001}
		return fmt.Sprintf("(\"before\", set(range(%d)), %d)", sizes[((n%3)+3)%3], n)
	case "numtype":
		// the same number as an int and as a float: equal under ==, different values
		return []string{"7", "7.0", "8", "8.0"}[((n%4)+4)%4]
	case "strbytes":
		// the same text twice, the second time as a str or as bytes
		k := ((n % 40) + 40) % 40
		if k%2 == 0 {
			return fmt.Sprintf("(\"GIF89a-%d\", \"GIF89a-%d\")", k/2, k/2)
		}
		return fmt.Sprintf("(\"GIF89a-%d\", b\"GIF89a-%d\")", k/2, k/2)
	case "booltype":
		return []string{"1", "True", "0", "False"}[((n%4)+4)%4]
	case "floatspecial":
		return []string{"float(\"nan\")", "float(\"inf\")", "-0.0", "float(\"-inf\")", "1e308", "5e-324"}[((n%6)+6)%6]
	case "memo255":
		// more than 255 memoized objects, then references to an early and a late one
		return fmt.Sprintf("(lambda xs: xs + [xs[0], xs[299], %d])([[i] for i in range(300)])", n)
	case "tupslice":
		// a tuple and a prefix slice of it (the slice shares the tuple's storage)
		return fmt.Sprintf("(lambda t: (t, t[:%d]))((10, 20, 30, 40, 50, 60, 70))", 1+((n%6)+6)%6)
	case "idx1000":
		// only the elements at indices 1000 and 2001 depend on the version
		return fmt.Sprintf("[0] * 1000 + [%d] + [0] * 1000 + [%d] + [0] * 7", n, n+1)
	case "strlen":
		sizes := []int{254, 255, 256, 257}
		return fmt.Sprintf("(\"y\" * %d) + \"%d\"", sizes[((n%4)+4)%4], n)
	}
	return fmt.Sprintf("%d", n)
}

// literal kinds can be written directly inside a function body.
var literalKinds = []string{"int", "int", "str", "bytes", "float", "bool"}

func genValue(r *rand.Rand, kinds []string) valueSpec {
	return valueSpec{Kind: kinds[r.IntN(len(kinds))], V: r.IntN(40)}
}

// ---------------------------------------------------------------- spec

type globalSpec struct {
	Name string    `json:"name"`
	Val  valueSpec `json:"val"`
}

type helperSpec struct {
	Name  string    `json:"name"`
	Const string    `json:"const,omitempty"` // a constant of the same module it returns (with Lit added)
	Lit   valueSpec `json:"lit"`             // a literal in its code
	Calls string    `json:"calls,omitempty"` // another helper (same module, or loaded: "lib1.f0")
	Rec   bool      `json:"recursive,omitempty"`
	Mut   string    `json:"mutual,omitempty"` // another helper called in the n > 0 branch (mutual recursion)
}

type moduleSpec struct {
	Pkg     string       `json:"pkg"`  // package directory label, e.g. "//" or "//a"
	File    string       `json:"file"` // e.g. "lib0.dawn"
	Loads   []int        `json:"loads,omitempty"`
	LoadExt []int        `json:"loads_ext,omitempty"` // required projects whose lib.dawn this module loads
	Consts  []globalSpec `json:"consts,omitempty"`
	Funcs   []helperSpec `json:"funcs,omitempty"`
	Yields  int          `json:"yields,omitempty"`
	Comment int          `json:"comment_v,omitempty"`
	Blank   int          `json:"blank_v,omitempty"`
	Fails   bool         `json:"fails,omitempty"`    // the module fails while it loads (after its loads and yields)
	FailHow int          `json:"fail_how,omitempty"` // 0 fail() at run time, 1 syntax error, 2 undefined name
}

func (m *moduleSpec) label() string {
	if m.Pkg == "//" {
		return "//:" + m.File
	}
	return m.Pkg + ":" + m.File
}

type refSpec struct {
	Kind string    `json:"kind"` // lit global libconst libfunc default freevar nested flag target predecl
	Name string    `json:"name,omitempty"`
	Mod  int       `json:"mod,omitempty"`
	Val  valueSpec `json:"val,omitempty"`
	Val2 valueSpec `json:"val2,omitempty"` // twins: the second function value made by the same def
}

type targetSpec struct {
	Pkg       string    `json:"pkg"`
	Name      string    `json:"name"`
	Deps      []string  `json:"deps,omitempty"`      // absolute labels
	Sources   []string  `json:"sources,omitempty"`   // relative to the package directory
	Generates []string  `json:"generates,omitempty"` // relative to the package directory
	Always    bool      `json:"always,omitempty"`
	SrcTwice  bool      `json:"first_source_listed_twice,omitempty"` // "x.txt" and "./x.txt"
	Default   bool      `json:"default,omitempty"`
	Form      string    `json:"form"` // decorator | call | closure
	Refs      []refSpec `json:"refs,omitempty"`
	Yields    int       `json:"yields,omitempty"`
	Text      string    `json:"text,omitempty"`
	DocV      int       `json:"doc_v,omitempty"`
	CommentV  int       `json:"comment_v,omitempty"`
	SelfParam bool      `json:"self_param,omitempty"`
	GlobDirs  []string  `json:"glob_dirs,omitempty"`    // sources += glob(["<dir>/*.txt"]) for each
	DepSpell  []int     `json:"dep_spelling,omitempty"` // per dependency: 0 canonical, 1 "//pkg/:name", 2 "//pkg//:name", 3 listed twice (canonical + variant 1)
	ReadsDeps bool      `json:"reads_deps,omitempty"`   // the body reads its dependencies' generated files (their paths are literals in its code)
}

// spelledDeps renders the dependency labels as written in the BUILD file: the same label can
// be spelled in several ways and listed more than once.
func (t *targetSpec) spelledDeps() []string {
	var out []string
	for i, d := range t.Deps {
		sp := 0
		if i < len(t.DepSpell) {
			sp = t.DepSpell[i]
		}
		c := strings.LastIndexByte(d, ':')
		if c < 0 {
			out = append(out, d) // a package label without a target name (names no target)
			continue
		}
		pkg, name := d[:c], d[c+1:]
		alt := d
		if pkg != "//" {
			alt = pkg + "/:" + name
		}
		switch sp {
		case 1:
			out = append(out, alt)
		case 2:
			if pkg != "//" {
				out = append(out, pkg+"//:"+name)
			} else {
				out = append(out, d)
			}
		case 3:
			out = append(out, d, alt)
		default:
			out = append(out, d)
		}
	}
	return out
}

func (t *targetSpec) label() string {
	if t.Pkg == "//" {
		return "//:" + t.Name
	}
	return t.Pkg + ":" + t.Name
}

type pkgSpec struct {
	Path     string       `json:"path"` // "//", "//a", ...
	Globals  []globalSpec `json:"globals,omitempty"`
	Flag     string       `json:"flag,omitempty"` // name of a parse_flag flag defined here
	FlagDef  string       `json:"flag_default,omitempty"`
	Comment  int          `json:"comment_v,omitempty"`
	Blank    int          `json:"blank_v,omitempty"`
	Extra    int          `json:"extra_globals,omitempty"` // unrelated globals inserted at the top (a don't-care edit)
	Predecl  bool         `json:"predeclared_globals,omitempty"`
	LoadsBld []string     `json:"loads_build,omitempty"`    // other packages' BUILD.dawn loaded (C06)
	LoadsMod []int        `json:"loads_mod,omitempty"`      // helper modules loaded explicitly (C06)
	LoadsExt []int        `json:"loads_ext,omitempty"`      // required projects whose lib.dawn is loaded explicitly
	LoadsUtl []int        `json:"loads_ext_util,omitempty"` // required projects whose second module (util.dawn) is loaded directly
	Yields   int          `json:"yields,omitempty"`
}

type projSpec struct {
	Packages []pkgSpec         `json:"packages"`
	Modules  []moduleSpec      `json:"modules,omitempty"`
	Targets  []targetSpec      `json:"targets"`
	Files    map[string]string `json:"files,omitempty"` // source files: path relative to the root -> content
	FlagArg  string            `json:"flag_arg,omitempty"`
	Exts     []extSpec         `json:"required_projects,omitempty"` // see ext.go
}

func pkgDir(pkg string) string { return strings.TrimPrefix(pkg, "//") }

func (p *projSpec) pkg(path string) *pkgSpec {
	for i := range p.Packages {
		if p.Packages[i].Path == path {
			return &p.Packages[i]
		}
	}
	return nil
}

func (p *projSpec) target(label string) *targetSpec {
	for i := range p.Targets {
		if p.Targets[i].label() == label {
			return &p.Targets[i]
		}
	}
	return nil
}

// args are the command-line arguments passed to Load.
func (p *projSpec) args() []string {
	if p.FlagArg == "" {
		return nil
	}
	for _, pk := range p.Packages {
		if pk.Flag != "" {
			name := pk.Flag
			if d := pkgDir(pk.Path); d != "" {
				name = strings.ReplaceAll(d, "/", ".") + "." + name
			}
			return []string{"--" + name + "=" + p.FlagArg}
		}
	}
	return nil
}

// ---------------------------------------------------------------- rendering

func (m *moduleSpec) render(p *projSpec) string {
	var sb strings.Builder
	fmt.Fprintf(&sb, "# helper module %s (comment v%d)\n", m.File, m.Comment)
	for _, li := range m.Loads {
		o := &p.Modules[li]
		var syms []string
		for _, c := range o.Consts {
			syms = append(syms, fmt.Sprintf("%q", c.Name))
		}
		for _, f := range o.Funcs {
			syms = append(syms, fmt.Sprintf("%q", f.Name))
		}
		if len(syms) > 0 {
			fmt.Fprintf(&sb, "load(%q, %s)\n", o.label(), strings.Join(syms, ", "))
		}
	}
	for _, e := range m.LoadExt {
		if e < len(p.Exts) {
			fmt.Fprintf(&sb, "load(\"%s//:lib.dawn\", ext%d_f = \"ext_f\", EXT%d_K = \"EXT_K\")\n", extAlias(e), e, e)
		}
	}
	sb.WriteString(strings.Repeat("\n", m.Blank))
	for i := 0; i < m.Yields; i++ {
		sb.WriteString("sim_yield()\n")
	}
	for _, c := range m.Consts {
		fmt.Fprintf(&sb, "%s = %s\n", c.Name, c.Val.render())
	}
	if m.Fails {
		switch m.FailHow {
		case 1:
			sb.WriteString("def broken(:\n    pass\n")
		case 2:
			sb.WriteString("X_BROKEN = UNDEFINED_NAME_IN_" + strings.ToUpper(strings.TrimSuffix(m.File, ".dawn")) + "\n")
		default:
			fmt.Fprintf(&sb, "fail(\"module %s is broken\")\n", m.File)
		}
	}
	for _, f := range m.Funcs {
		fmt.Fprintf(&sb, "\ndef %s(n = 0):\n", f.Name)
		parts := []string{f.Lit.render()}
		if f.Const != "" {
			parts = append(parts, f.Const)
		}
		if f.Calls != "" {
			parts = append(parts, f.Calls+"()")
		}
		if f.Rec {
			fmt.Fprintf(&sb, "    if n > 0:\n        return %s(n - 1)\n", f.Name)
		}
		if f.Mut != "" {
			fmt.Fprintf(&sb, "    if n > 1:\n        return %s(n - 1)\n", f.Mut)
		}
		fmt.Fprintf(&sb, "    return (%s,)\n", strings.Join(parts, ", "))
	}
	return sb.String()
}

func quoteList(xs []string) string {
	q := make([]string, len(xs))
	for i, x := range xs {
		q[i] = fmt.Sprintf("%q", x)
	}
	return "[" + strings.Join(q, ", ") + "]"
}

func (p *projSpec) renderBuild(pk *pkgSpec) string {
	var sb strings.Builder
	fmt.Fprintf(&sb, "# BUILD file of %s (comment v%d)\n", pk.Path, pk.Comment)
	// loads: helper modules used by this package's targets
	used := map[int]map[string]bool{}
	for i := range p.Targets {
		t := &p.Targets[i]
		if t.Pkg != pk.Path {
			continue
		}
		for _, r := range t.Refs {
			if r.Kind == "libconst" || r.Kind == "libfunc" {
				if used[r.Mod] == nil {
					used[r.Mod] = map[string]bool{}
				}
				used[r.Mod][r.Name] = true
			}
		}
	}
	mods := make([]int, 0, len(used))
	for m := range used {
		mods = append(mods, m)
	}
	sort.Ints(mods)
	for _, mi := range mods {
		var syms []string
		for s := range used[mi] {
			syms = append(syms, s)
		}
		sort.Strings(syms)
		fmt.Fprintf(&sb, "load(%q, %s)\n", p.Modules[mi].label(), strings.Join(quoteAll(syms), ", "))
	}
	usedExt := map[int]bool{}
	for i := range p.Targets {
		if t := &p.Targets[i]; t.Pkg == pk.Path {
			for _, r := range t.Refs {
				if (r.Kind == "extconst" || r.Kind == "extfunc") && r.Mod < len(p.Exts) {
					usedExt[r.Mod] = true
				}
			}
		}
	}
	for _, e := range pk.LoadsExt {
		if e < len(p.Exts) {
			usedExt[e] = true
		}
	}
	for e := range p.Exts {
		if usedExt[e] {
			fmt.Fprintf(&sb, "load(\"%s//:lib.dawn\", ext%d_f = \"ext_f\", EXT%d_K = \"EXT_K\")\n", extAlias(e), e, e)
		}
	}
	for _, e := range pk.LoadsUtl {
		if e < len(p.Exts) && p.Exts[e].Util {
			fmt.Fprintf(&sb, "load(\"%s//:util.dawn\", \"EXT%d_U\")\n", extAlias(e), e)
		}
	}
	for i, l := range pk.LoadsBld {
		fmt.Fprintf(&sb, "load(%q, mark_%d = \"MARK\")\n", l, i)
	}
	for _, mi := range pk.LoadsMod {
		if used[mi] == nil && mi < len(p.Modules) && len(p.Modules[mi].Consts) > 0 {
			fmt.Fprintf(&sb, "load(%q, %q)\n", p.Modules[mi].label(), p.Modules[mi].Consts[0].Name)
		}
	}
	for i := 0; i < pk.Yields; i++ {
		sb.WriteString("sim_yield()\n")
	}
	fmt.Fprintf(&sb, "MARK = %q\n", pk.Path)
	sb.WriteString(strings.Repeat("\n", pk.Blank))
	for i := 0; i < pk.Extra; i++ {
		fmt.Fprintf(&sb, "EXTRA_%d = %d\n", i, i)
	}
	for _, g := range pk.Globals {
		if g.Val.Kind == "cyclicdict" {
			fmt.Fprintf(&sb, "%s = {\"n\": %d}\n%s[\"self\"] = %s\n", g.Name, g.Val.V, g.Name, g.Name)
			continue
		}
		if g.Val.Kind == "cyclic" {
			fmt.Fprintf(&sb, "%s = [%d]\n%s.append(%s)\n", g.Name, g.Val.V, g.Name, g.Name)
			continue
		}
		fmt.Fprintf(&sb, "%s = %s\n", g.Name, g.Val.render())
	}
	if pk.Flag != "" {
		fmt.Fprintf(&sb, "FLAG_%s = parse_flag(%q, default=%q)\n", pk.Flag, pk.Flag, pk.FlagDef)
	}
	if pk.Predecl {
		sb.WriteString("CACHE0 = Cache()\n")
	}
	for i := range p.Targets {
		t := &p.Targets[i]
		if t.Pkg != pk.Path {
			continue
		}
		sb.WriteString("\n")
		sb.WriteString(p.renderTarget(t))
		for _, r := range t.Refs {
			if r.Kind == "lateglobal" {
				fmt.Fprintf(&sb, "\nLATE_%s = %s\n\ndef late_%s():\n    return (LATE_%s, %s)\n", t.Name, r.Val.render(), t.Name, t.Name, r.Val2.render())
			}
		}
	}
	return sb.String()
}

func quoteAll(xs []string) []string {
	q := make([]string, len(xs))
	for i, x := range xs {
		q[i] = fmt.Sprintf("%q", x)
	}
	return q
}

func (p *projSpec) renderTarget(t *targetSpec) string {
	var sb strings.Builder
	var kw []string
	if len(t.Deps) > 0 {
		kw = append(kw, "deps="+quoteList(t.spelledDeps()))
	}
	if len(t.Sources) > 0 || len(t.GlobDirs) > 0 {
		srcs := t.Sources
		if t.SrcTwice && len(t.Sources) > 0 && !strings.Contains(t.Sources[0], "/") {
			// the first source once more under another spelling of the same file
			srcs = append(append([]string{}, t.Sources...), "./"+t.Sources[0])
		}
		src := quoteList(srcs)
		for _, g := range t.GlobDirs {
			src += fmt.Sprintf(" + glob([%q])", g+"/*.txt")
		}
		kw = append(kw, "sources="+src)
	}
	if len(t.Generates) > 0 {
		kw = append(kw, "generates="+quoteList(t.Generates))
	}
	if t.Always {
		kw = append(kw, "always=True")
	}
	if t.Default {
		kw = append(kw, "default=True")
	}
	// arguments handed to sim_body and the pieces of code that produce them
	args := []string{fmt.Sprintf("%q", t.label()), quoteList(p.depReads(t))}
	var pre []string
	params := []string{}
	self := t.SelfParam
	for _, r := range t.Refs {
		if r.Kind == "default" || r.Kind == "mutdefault" {
			self = true
		}
	}
	if self {
		params = append(params, "self")
	}
	varargs := t.Form == "varargs"
	var free *refSpec
	for i := range t.Refs {
		r := &t.Refs[i]
		switch r.Kind {
		case "lit":
			args = append(args, r.Val.render())
		case "global", "libconst":
			args = append(args, r.Name)
		case "libfunc":
			args = append(args, r.Name+"()")
		case "extconst":
			args = append(args, fmt.Sprintf("EXT%d_K", r.Mod))
		case "extfunc":
			args = append(args, fmt.Sprintf("ext%d_f()", r.Mod))
		case "default":
			params = append(params, fmt.Sprintf("%s=%s", r.Name, r.Val.render()))
			args = append(args, r.Name)
		case "freevar":
			free = r
			args = append(args, r.Name)
		case "nested":
			pre = append(pre, fmt.Sprintf("    %s_f = lambda: [x for x in [%s]]", r.Name, r.Name))
			args = append(args, r.Name+"_f()")
		case "deep":
			pre = append(pre, fmt.Sprintf("    def %s_a():\n        def %s_b():\n            def %s_c():\n                return %s\n            return %s_c()\n        return %s_b()", r.Name, r.Name, r.Name, r.Name, r.Name, r.Name))
			args = append(args, r.Name+"_a()")
		case "selfref":
			args = append(args, t.Name+".label")
		case "twins":
			args = append(args, fmt.Sprintf("TW_%s_a()", t.Name), fmt.Sprintf("TW_%s_b()", t.Name))
		case "lateglobal":
			// a helper and a constant defined BELOW the target in the same file
			args = append(args, fmt.Sprintf("late_%s()", t.Name))
		case "structfn":
			args = append(args, fmt.Sprintf("RULES_%s.render()", t.Name))
		case "fnkeys":
			args = append(args, fmt.Sprintf("(len(FK_%s), len(FS_%s), fk_%s_a())", t.Name, t.Name, t.Name))
		case "dag":
			// a value with heavy sharing: 48 levels of [x, x] hold 2^48 paths to one leaf in 49
			// lists; only its length is handed to the body (printing it would never end)
			args = append(args, fmt.Sprintf("len(DAG_%s)", t.Name))
		case "mutdefault":
			params = append(params, "acc=[]")
			pre = append(pre, "    acc.append(len(acc))")
		case "kwonly":
			args = append(args, fmt.Sprintf("kw_%s(1, b = 2)", t.Name))
		case "manynested":
			args = append(args, fmt.Sprintf("len(mn_%s())", t.Name))
		case "cacheonce":
			pre = append(pre, fmt.Sprintf("    CACHE0.once(\"k_%s\", lambda: %s)", t.Name, r.Val.render()))
			args = append(args, "CACHE0")
		case "flag":
			args = append(args, "FLAG_"+r.Name)
		case "target":
			args = append(args, r.Name+".label")
		case "predecl":
			args = append(args, r.Name)
		}
	}
	body := func(indent string) string {
		var b strings.Builder
		fmt.Fprintf(&b, "%s\"\"\"doc of %s v%d\"\"\"\n", indent, t.Name, t.DocV)
		fmt.Fprintf(&b, "%s# comment v%d\n", indent, t.CommentV)
		for _, l := range pre {
			for _, ll := range strings.Split(l, "\n") {
				b.WriteString(indent + strings.TrimPrefix(ll, "    ") + "\n")
			}
		}
		fmt.Fprintf(&b, "%ssim_body(%s)\n", indent, strings.Join(args, ", "))
		return b.String()
	}
	if varargs {
		if !self {
			params = append([]string{"self"}, params...)
		}
		params = append(params, "*args", "**kwargs")
	}
	for i := range t.Refs {
		if r := &t.Refs[i]; r.Kind == "twins" {
			fmt.Fprintf(&sb, "def mk_%s(v, d = 0):\n    def inner(x = d):\n        return (v, x)\n    return inner\n\n", t.Name)
			fmt.Fprintf(&sb, "TW_%s_a = mk_%s(%s)\nTW_%s_b = mk_%s(%s, d = %s)\n\n", t.Name, t.Name, r.Val.render(), t.Name, t.Name, r.Val.render(), r.Val2.render())
		}
	}
	for i := range t.Refs {
		if r := &t.Refs[i]; r.Kind == "dag" {
			if r.Name == "tuple" {
				// the same shape made of tuples, 12 levels only: the interpreter itself walks a
				// tuple once per path when it freezes a module's globals, so a module with 48
				// levels never finishes loading and is outside what the properties speak of
				fmt.Fprintf(&sb, "def _mk_dag_%s():\n    x = (%s,)\n    for _ in range(12):\n        x = (x, x)\n    return x\n\nDAG_%s = _mk_dag_%s()\n\n", t.Name, r.Val.render(), t.Name, t.Name)
				continue
			}
			fmt.Fprintf(&sb, "def _mk_dag_%s():\n    x = [%s]\n    for _ in range(48):\n        x = [x, x]\n    return x\n\nDAG_%s = _mk_dag_%s()\n\n", t.Name, r.Val.render(), t.Name, t.Name)
		}
	}
	for i := range t.Refs {
		if r := &t.Refs[i]; r.Kind == "fnkeys" {
			n := t.Name
			fmt.Fprintf(&sb, "def fk_%s_a():\n    return %s\n\ndef fk_%s_b():\n    return 2\n\n", n, r.Val.render(), n)
			fmt.Fprintf(&sb, "FK_%s = {fk_%s_a: 1, (fk_%s_b, 3): 2, struct(f = fk_%s_b): 3}\nFS_%s = set([fk_%s_a, fk_%s_b])\n\n", n, n, n, n, n, n, n)
		}
	}
	for i := range t.Refs {
		if r := &t.Refs[i]; r.Kind == "manynested" {
			// 24 functions with 5 nested functions each: the interpreter hands out a fresh
			// wrapper object per nested function whenever a function's code is described
			fmt.Fprintf(&sb, "def mn_%s():\n    out = []\n", t.Name)
			for a := 0; a < 24; a++ {
				fmt.Fprintf(&sb, "    def a%d():\n", a)
				for b := 0; b < 5; b++ {
					fmt.Fprintf(&sb, "        def b%d():\n            return (%s, %d, %d)\n", b, r.Val.render(), a, b)
				}
				fmt.Fprintf(&sb, "        return [b0(), b1(), b2(), b3(), b4()]\n    out.append(a%d())\n", a)
			}
			sb.WriteString("    return out\n\n")
		}
	}
	for i := range t.Refs {
		if r := &t.Refs[i]; r.Kind == "kwonly" {
			fmt.Fprintf(&sb, "def kw_%s(a, *, b, c = %s):\n    return (a, b, c)\n\n", t.Name, r.Val.render())
		}
	}
	for i := range t.Refs {
		if r := &t.Refs[i]; r.Kind == "structfn" {
			fmt.Fprintf(&sb, "def _render_%s():\n    return %s\n\nRULES_%s = struct(render = _render_%s, name = %q)\n\n", t.Name, r.Val.render(), t.Name, t.Name, t.Name)
		}
	}
	form := t.Form
	if free != nil {
		form = "closure"
	}
	defer func() {}()
	switch form {
	case "closure":
		v := "0"
		vn := "unused_v"
		if free != nil {
			v, vn = free.Val.render(), free.Name
		}
		fmt.Fprintf(&sb, "def make_%s(%s):\n    def %s(%s):\n%s    return %s\n\n", t.Name, vn, t.Name, strings.Join(params, ", "), body("        "), t.Name)
		kw2 := append([]string{fmt.Sprintf("name=%q", t.Name), fmt.Sprintf("function=make_%s(%s)", t.Name, v)}, kw...)
		fmt.Fprintf(&sb, "%s = target(%s)\n", t.Name, strings.Join(kw2, ", "))
	case "call":
		fmt.Fprintf(&sb, "def %s_impl(%s):\n%s\n", t.Name, strings.Join(params, ", "), body("    "))
		kw2 := append([]string{fmt.Sprintf("name=%q", t.Name), fmt.Sprintf("function=%s_impl", t.Name)}, kw...)
		fmt.Fprintf(&sb, "%s = target(%s)\n", t.Name, strings.Join(kw2, ", "))
	default:
		fmt.Fprintf(&sb, "@target(%s)\ndef %s(%s):\n%s", strings.Join(kw, ", "), t.Name, strings.Join(params, ", "), body("    "))
	}
	return sb.String()
}

// depReads lists (root-relative) the dependency outputs the body of t reads; they appear as
// literals in its code, so changing them is a code change.
func (p *projSpec) depReads(t *targetSpec) []string {
	var out []string
	if !t.ReadsDeps {
		return out
	}
	for _, d := range t.Deps {
		if dt := p.target(d); dt != nil {
			for _, g := range dt.Generates {
				out = append(out, filepath.Join(pkgDir(dt.Pkg), g))
			}
		}
	}
	return out
}

// files returns every file of the project (path relative to the root -> content).
func (p *projSpec) files() map[string]string {
	out := map[string]string{"dawn.toml": p.rootToml()}
	for i := range p.Packages {
		pk := &p.Packages[i]
		out[filepath.Join(pkgDir(pk.Path), "BUILD.dawn")] = p.renderBuild(pk)
	}
	for i := range p.Modules {
		m := &p.Modules[i]
		out[filepath.Join(pkgDir(m.Pkg), m.File)] = m.render(p)
	}
	for path, content := range p.Files {
		out[path] = content
	}
	return out
}

// sync writes the project to disk: files whose content differs are rewritten, files that
// no longer exist in the spec (and that the spec owned before) are removed.
func (p *projSpec) sync(root string, prev map[string]string) (map[string]string, error) {
	cur := p.files()
	names := make([]string, 0, len(cur))
	for n := range cur {
		names = append(names, n)
	}
	sort.Strings(names)
	for _, n := range names {
		if old, ok := prev[n]; ok && old == cur[n] {
			continue
		}
		if err := writeEntry(root, n, cur[n]); err != nil {
			return nil, err
		}
	}
	for n := range prev {
		if _, ok := cur[n]; !ok {
			os.Remove(filepath.Join(root, n))
			// prune directories this leaves empty (the model only knows files)
			for d := filepath.Dir(n); d != "." && d != "/"; d = filepath.Dir(d) {
				if os.Remove(filepath.Join(root, d)) != nil {
					break
				}
			}
		}
	}
	return cur, nil
}

// linkMark: a Files entry with this prefix is a symbolic link to the (relative) path that follows.
const linkMark = "\x00link:"

// writeEntry creates or replaces one project file: a regular file, or a symbolic link.
func writeEntry(root, rel, content string) error {
	path := filepath.Join(root, rel)
	if err := os.MkdirAll(filepath.Dir(path), 0755); err != nil {
		return err
	}
	if st, err := os.Lstat(path); err == nil && st.Mode()&os.ModeSymlink != 0 {
		os.Remove(path) // never write through a link
	}
	if strings.HasPrefix(content, linkMark) {
		os.Remove(path)
		return os.Symlink(strings.TrimPrefix(content, linkMark), path)
	}
	return os.WriteFile(path, []byte(content), 0644)
}

// fileContent is what reading the entry yields: for a link, the file it points to.
func (p *projSpec) fileContent(rel string) string {
	c := p.Files[rel]
	if strings.HasPrefix(c, linkMark) {
		dest := filepath.Join(filepath.Dir(rel), strings.TrimPrefix(c, linkMark))
		if _, ok := p.Files[dest]; !ok {
			// a link to a directory: everything below it
			var sb strings.Builder
			for _, n := range p.filesUnder(dest) {
				fmt.Fprintf(&sb, "%s\x00%s\x00", strings.TrimPrefix(n, dest), p.Files[n])
			}
			return "link to directory " + dest + ": " + sb.String()
		}
		return "link to " + dest + ": " + p.Files[dest]
	}
	return c
}

// bodySpecs derives what each body does from the spec (paths are absolute under root).
func (p *projSpec) bodySpecs(root string) map[string]*bodySpec {
	out := map[string]*bodySpec{}
	abs := func(pkg, rel string) string { return filepath.Join(root, pkgDir(pkg), rel) }
	for i := range p.Targets {
		t := &p.Targets[i]
		b := &bodySpec{Yields: t.Yields, Text: t.Text}
		for _, s := range t.Sources {
			b.Sources = append(b.Sources, abs(t.Pkg, s))
		}
		for _, g := range t.GlobDirs {
			b.Globs = append(b.Globs, abs(t.Pkg, g))
		}
		for _, g := range t.Generates {
			b.Outs = append(b.Outs, abs(t.Pkg, g))
		}
		out[t.label()] = b
	}
	return out
}
