package dawn

// E2 engine core: a simulated "process" is one simrt.Sim in which dawn.Load and
// Project.Run / GC execute against a real scratch directory; the harness (this file) is
// the world outside the process: it owns the execution log, the event recorder and the
// bodies of targets (the sim_body builtin stands for the external commands a target runs).

import (
	"crypto/sha256"
	"encoding/hex"
	"fmt"
	"io"
	"os"
	"path/filepath"
	"runtime"
	"runtime/debug"
	"sort"
	"strings"
	"sync/atomic"
	"time"

	homedir "github.com/mitchellh/go-homedir"
	"github.com/pgavlin/dawn/diff"
	"github.com/pgavlin/dawn/label"
	starlark_os "github.com/pgavlin/dawn/lib/os"
	starlark_sh "github.com/pgavlin/dawn/lib/sh"
	"github.com/pgavlin/dawn/util"
	starlark_json "go.starlark.net/lib/json"
	"go.starlark.net/starlark"
	"go.starlark.net/starlarkstruct"
	"verif.local/sim/simcheck"
	"verif.local/sim/simrt"
)

// ---------------------------------------------------------------- execution log

type execRec struct {
	Seq   int
	Build int    // index of the history operation
	Label string // target label
	Kind  string // start | end | fail
	Vals  string // hash of the values the body received
	Key   string // the model's input key of the target when the body started
}

type eventRec struct {
	Seq   int
	Kind  string
	Label string
	Text  string // line / reason / error text
	Err   error
	Flag  bool // changed
}

// world is everything outside the simulated process.
type world struct {
	root       string // project directory
	home       string
	seq        int
	op         int // current history operation index
	log        []execRec
	events     []eventRec
	sim        *simrt.Sim
	bodies     map[string]*bodySpec // label -> how its body behaves (from the spec)
	failing    map[string]bool      // labels whose body fails in the current build
	runNo      int                  // 1 or 2: which Run of the current process (see buildOpts.Between)
	written    map[string]string    // label -> text the body wrote to stdout in the current build (concatenated)
	chunkT     *simrt.Tape
	keyOf      func(label string) string
	ctx        *simcheck.Ctx
	tornOut    bool
	failLate   bool // failing bodies write their outputs first
	running    int  // bodies between start and end right now
	maxRunning int
	// the simulated network (ext.go): the projects that can be fetched, the number of
	// repository operations of the current process, the one that fails, how many failed
	exts      func() *projSpec
	netOps    int
	netFailAt int
	netFaults int
	// events a Starlark callback received from the REPL's run() builtin
	replEvents []eventRec
}

type bodySpec struct {
	Yields  int
	Sources []string // absolute paths read by the body (files or directories)
	Globs   []string // absolute directories whose direct *.txt children the body reads
	Outs    []string // absolute paths written by the body
	Text    string   // written to stdout
}

func (w *world) nextSeq() int { w.seq++; return w.seq }

// ---------------------------------------------------------------- events

type recEvents struct{ w *world }

func (e recEvents) add(kind string, l *label.Label, text string, err error, flag bool) {
	ls := ""
	if l != nil {
		ls = l.String()
	}
	e.w.events = append(e.w.events, eventRec{Seq: e.w.nextSeq(), Kind: kind, Label: ls, Text: text, Err: err, Flag: flag})
}

func (e recEvents) Print(l *label.Label, line string) { e.add("Print", l, line, nil, false) }
func (e recEvents) RequirementLoading(l *label.Label, v string) {
	e.add("RequirementLoading", l, v, nil, false)
}
func (e recEvents) RequirementLoaded(l *label.Label, v string) {
	e.add("RequirementLoaded", l, v, nil, false)
}
func (e recEvents) ModuleLoading(l *label.Label) { e.add("ModuleLoading", l, "", nil, false) }
func (e recEvents) ModuleLoaded(l *label.Label)  { e.add("ModuleLoaded", l, "", nil, false) }
func (e recEvents) ModuleLoadFailed(l *label.Label, err error) {
	e.add("ModuleLoadFailed", l, err.Error(), err, false)
}
func (e recEvents) LoadDone(err error)            { e.add("LoadDone", nil, errText(err), err, false) }
func (e recEvents) TargetUpToDate(l *label.Label) { e.add("TargetUpToDate", l, "", nil, false) }
func (e recEvents) TargetFailed(l *label.Label, err error) {
	e.add("TargetFailed", l, errText(err), err, false)
}
func (e recEvents) TargetSucceeded(l *label.Label, changed bool) {
	e.add("TargetSucceeded", l, "", nil, changed)
}
func (e recEvents) RunDone(err error)          { e.add("RunDone", nil, errText(err), err, false) }
func (e recEvents) FileChanged(l *label.Label) { e.add("FileChanged", l, "", nil, false) }
func (e recEvents) RequirementLoadFailed(l *label.Label, v string, err error) {
	e.add("RequirementLoadFailed", l, v, err, false)
}
func (e recEvents) TargetEvaluating(l *label.Label, reason string, d diff.ValueDiff) {
	e.add("TargetEvaluating", l, reason, nil, false)
}

func errText(err error) string {
	if err == nil {
		return ""
	}
	return err.Error()
}

// ---------------------------------------------------------------- the body builtin

func hashBytes(parts ...[]byte) string {
	h := sha256.New()
	for _, p := range parts {
		fmt.Fprintf(h, "%d:", len(p))
		h.Write(p)
	}
	return hex.EncodeToString(h.Sum(nil))
}

// readTree returns a canonical rendering of a file or directory (sorted names + bytes),
// or "<missing>".
func readTree(path string) []byte {
	st, err := os.Stat(path)
	if err != nil {
		return []byte("<missing>")
	}
	if !st.IsDir() {
		b, _ := os.ReadFile(path)
		return b
	}
	var sb strings.Builder
	filepath.WalkDir(path, func(p string, d os.DirEntry, err error) error {
		if err != nil || d.IsDir() {
			return nil
		}
		rel, _ := filepath.Rel(path, p)
		b, _ := os.ReadFile(p)
		fmt.Fprintf(&sb, "%s\x00%d\x00%s\x00", rel, len(b), b)
		return nil
	})
	return []byte(sb.String())
}

// simBody is the builtin every generated target body calls: sim_body(label, *values).
func (w *world) simBody(thread *starlark.Thread, fn *starlark.Builtin, args starlark.Tuple, kwargs []starlark.Tuple) (starlark.Value, error) {
	if len(args) < 1 {
		return nil, fmt.Errorf("sim_body: missing label")
	}
	lbl, _ := starlark.AsString(args[0])
	var reads []string
	if len(args) >= 2 {
		if lst, ok := args[1].(*starlark.List); ok {
			for i := 0; i < lst.Len(); i++ {
				if sv, ok := starlark.AsString(lst.Index(i)); ok {
					reads = append(reads, filepath.Join(w.root, sv))
				}
			}
		}
	}
	var vals strings.Builder
	for _, a := range args[1:] {
		vals.WriteString(a.Type())
		vals.WriteByte('=')
		vals.WriteString(a.String())
		vals.WriteByte(';')
	}
	valHash := hashBytes([]byte(vals.String()))[:16]
	key := ""
	if w.keyOf != nil {
		key = w.keyOf(lbl)
	}
	w.log = append(w.log, execRec{Seq: w.nextSeq(), Build: w.op, Label: lbl, Kind: "start", Vals: valHash, Key: key})
	spec := w.bodies[lbl]
	if spec == nil {
		spec = &bodySpec{}
	}
	w.running++
	if w.running > w.maxRunning {
		w.maxRunning = w.running
	}
	if w.running > 1 {
		w.ctx.St.Probes["target_bodies_overlapped"]++
	}
	defer func() { w.running-- }()
	s := w.sim
	startedInRun := w.runNo
	for i := 0; i < spec.Yields; i++ {
		s.Yield("body", lbl)
	}
	// read inputs
	parts := [][]byte{[]byte(lbl), []byte(vals.String())}
	for _, p := range spec.Sources {
		parts = append(parts, readTree(p))
	}
	for _, p := range reads {
		parts = append(parts, readTree(p))
	}
	for _, g := range spec.Globs {
		ents, _ := os.ReadDir(g)
		for _, e := range ents {
			if !e.IsDir() && strings.HasSuffix(e.Name(), ".txt") {
				b, _ := os.ReadFile(filepath.Join(g, e.Name()))
				parts = append(parts, []byte(e.Name()), b)
			}
		}
	}
	// stdout, in tape-chosen chunks
	if spec.Text != "" {
		stdout, _ := util.Stdio(thread)
		text := spec.Text
		var buf []byte // one buffer reused for every write, as io.Copy and os/exec do
		for len(text) > 0 {
			n := len(text)
			if w.chunkT != nil {
				switch w.chunkT.Intn(4) {
				case 0: // whole rest
				case 1:
					n = 1
				case 2:
					n = 1 + w.chunkT.Intn(len(text))
				case 3:
					stdout.Write(buf[:0]) // an empty write
					n = 1 + w.chunkT.Intn(len(text))
				}
			}
			buf = append(buf[:0], text[:n]...)
			stdout.Write(buf)
			text = text[n:]
			s.Yield("body.print", lbl)
		}
		w.written[lbl] += spec.Text
	}
	if w.failing[lbl] && w.runNo != 2 {
		if w.failLate {
			// the command fails after it has (half) written its outputs
			for _, out := range spec.Outs {
				os.MkdirAll(filepath.Dir(out), 0755)
				os.WriteFile(out, []byte("half-written by a failing body\n"), 0644)
			}
		}
		w.log = append(w.log, execRec{Seq: w.nextSeq(), Build: w.op, Label: lbl, Kind: "fail"})
		return nil, fmt.Errorf("body of %s failed (injected)", lbl)
	}
	// write outputs
	content := hashBytes(parts...) + "\n"
	if startedInRun == 1 && w.runNo == 2 {
		// a command left over from the previous run of this process that has read its inputs
		// and is slow to write its outputs: it sleeps until nothing else is runnable
		w.ctx.St.Probes["body_of_the_previous_run_still_running"]++
		s.SleepUntil(s.Now() + int64(time.Hour))
	}
	for _, out := range spec.Outs {
		s.Yield("body.write", lbl)
		os.MkdirAll(filepath.Dir(out), 0755)
		if w.tornOut {
			os.WriteFile(out, []byte(content[:len(content)/2]), 0644)
			s.Yield("body.write2", lbl)
		}
		os.WriteFile(out, []byte(content), 0644)
	}
	s.Yield("body.end", lbl)
	w.log = append(w.log, execRec{Seq: w.nextSeq(), Build: w.op, Label: lbl, Kind: "end", Vals: valHash, Key: key})
	return starlark.None, nil
}

// simYield is a builtin modules call at top level so that another loader can be mid-load.
func (w *world) simYield(thread *starlark.Thread, fn *starlark.Builtin, args starlark.Tuple, kwargs []starlark.Tuple) (starlark.Value, error) {
	w.sim.Yield("module.yield", thread.Name)
	return starlark.None, nil
}

func (w *world) builtins() starlark.StringDict {
	return starlark.StringDict{
		"sim_body":  starlark.NewBuiltin("sim_body", w.simBody),
		"sim_yield": starlark.NewBuiltin("sim_yield", w.simYield),
		"json":      starlark_json.Module,
		"struct":    starlark.NewBuiltin("struct", starlarkstruct.Make),
		"os":        starlark_os.Module,
		"sh":        starlark_sh.Module,
	}
}

// ---------------------------------------------------------------- simulated processes

type procCfg struct {
	Strategy  int
	Sticky    int
	PCTDepth  int
	NumCPU    int
	CrashAt   int
	TornFrac  int
	IOErrAt   map[int]int
	IOErrPM   int
	IOErrFrom int // from this I/O operation on, creating and writing fail with ENOSPC
	CondAny   bool
	UnlockY   bool `json:"unlock_yields,omitempty"`
	// GCHammer: while the case runs the Go runtime collects garbage all the time (GOGC=1 and a
	// goroutine outside the simulator that calls runtime.GC in a loop). Garbage collection is
	// the one source of nondeterminism the simulator cannot own; see DESIGN.md 12.2.
	GCHammer    bool `json:"gc_hammer,omitempty"`
	ReadDirPerm bool
	SplitWrites bool
	MapFixed    bool
	MaxSteps    int
	WatchdogS   int // seconds of real time without the process finishing before it is declared stuck
	// ViaLink: the project is loaded through a symbolic link to its root directory
	ViaLink bool `json:"via_link,omitempty"`
}

type procResult struct {
	Sim         *simrt.Sim
	LoadErr     error
	RunErr      error
	Loaded      bool
	Ran         bool
	FirstRunErr error
	GCErr       error
	Proj        *Project
}

func (w *world) newSim(name string, pc procCfg, stepHook func(step int, kind, detail string)) *simrt.Sim {
	ts := w.ctx.Tapes
	cfg := simrt.Config{
		Sched: ts.Get(name + ".sched"), Misc: ts.Get(name + ".misc"), Fault: ts.Get(name + ".fault"),
		Strategy: pc.Strategy, StickyNum: pc.Sticky, PCTDepth: pc.PCTDepth, PCTEst: 600, NumCPU: pc.NumCPU,
		CrashAt: pc.CrashAt, TornFrac: pc.TornFrac, IOErrAt: pc.IOErrAt, IOErrPerMille: pc.IOErrPM, IOErrFrom: pc.IOErrFrom, CondSignalAny: pc.CondAny, UnlockYields: pc.UnlockY,
		ReadDirPerm: pc.ReadDirPerm, SplitWrites: pc.SplitWrites, MapOrderFixed: pc.MapFixed,
		TempDir: filepath.Join(w.home, "tmp"), MaxSteps: pc.MaxSteps,
	}
	if cfg.NumCPU == 0 {
		cfg.NumCPU = 4
	}
	if cfg.MaxSteps == 0 {
		cfg.MaxSteps = 400000
	}
	if pc.WatchdogS > 0 {
		cfg.Watchdog = time.Duration(pc.WatchdogS) * time.Second
	}
	if w.ctx.Trace {
		cfg.TraceMax = 3000
	}
	s := simrt.New(cfg)
	s.OnStep = stepHook
	return s
}

type buildOpts struct {
	Label       string
	Always      bool
	DryRun      bool
	Args        []string
	PreferIndex bool
	LoadOnly    bool
	GC          bool
	SecondRun   bool     // call Run twice on the same Project (as the REPL does)
	Keep        *Project // REPL: run again on this loaded Project without reloading
	Reuse       *Project // watch mode: Reload this Project instead of loading afresh
	DryThenNil  int      // 1: dry run then Run(label, nil) on the same Project; 2: with a Reload in between (as Watch does)
	// Between (with SecondRun): called by the process between its two runs - an edit that
	// lands right after a build returned, followed by a rebuild in the same process (watch
	// mode, the REPL). Bodies told to fail fail in the first run only.
	Between func()
	// GCAfter: the process collects garbage on its Project as soon as Run has returned.
	GCAfter bool
	// SecondPlain: the second run (SecondRun) is not forced although the first was.
	SecondPlain bool
	// ViaREPL: run through the REPL's run() builtin with a callback that records the events.
	ViaREPL bool
}

// process runs one simulated dawn process: Load, then (optionally) GC and/or Run.
func (w *world) process(name string, pc procCfg, bo buildOpts, stepHook func(step int, kind, detail string)) *procResult {
	res := &procResult{}
	w.runNo = 0
	os.Setenv("HOME", w.home) // (another world of this worker may have pointed it elsewhere)
	curWorld, w.netOps, w.netFaults = w, 0, 0
	s := w.newSim(name, pc, stepHook)
	w.sim = s
	w.chunkT = w.ctx.Tapes.Get(name + ".chunks")
	res.Sim = s
	s.Run(func() {
		var proj *Project
		var err error
		if bo.Keep != nil {
			proj = bo.Keep
		} else if bo.Reuse != nil {
			proj = bo.Reuse
			err = proj.Reload()
		} else {
			proj, err = Load(w.root, &LoadOptions{Args: bo.Args, Events: recEvents{w}, Builtins: w.builtins(), PreferIndex: bo.PreferIndex})
		}
		res.LoadErr, res.Loaded, res.Proj = err, true, proj
		if err != nil || bo.LoadOnly {
			return
		}
		if hashHook != nil && (bo.DryRun || bo.GC) {
			hashHook(w)
		}
		if bo.GC {
			res.RunErr = proj.GC()
			res.Ran = true
			return
		}
		l, perr := label.Parse(bo.Label)
		if perr != nil {
			res.RunErr, res.Ran = perr, true
			return
		}
		if bo.DryThenNil > 0 {
			res.FirstRunErr = proj.Run(l, &RunOptions{DryRun: true})
			if bo.DryThenNil == 2 {
				if err := proj.Reload(); err != nil {
					res.RunErr, res.Ran = err, true
					return
				}
			}
			res.RunErr = proj.Run(l, nil)
			res.Ran = true
			return
		}
		w.runNo = 1
		if bo.ViaREPL {
			res.RunErr = w.replRun(proj, bo)
			if bo.SecondRun {
				// the REPL user calls run() again on the same loaded project
				res.FirstRunErr = res.RunErr
				w.runNo = 2
				res.RunErr = w.replRun(proj, bo)
			}
			res.Ran = true
			return
		}
		res.RunErr = proj.Run(l, &RunOptions{Always: bo.Always, DryRun: bo.DryRun})
		if bo.SecondRun {
			res.FirstRunErr = res.RunErr
			if bo.Between != nil {
				bo.Between()
				w.runNo = 2
			}
			res.RunErr = proj.Run(l, &RunOptions{Always: bo.Always && !bo.SecondPlain, DryRun: bo.DryRun})
		}
		if bo.GCAfter {
			res.GCErr = proj.GC()
		}
		res.Ran = true
	})
	w.sim = nil
	return res
}

// replRun builds bo.Label the way the REPL does: run(label, always=, dry_run=, callback=).
// The callback is a harness builtin that records the event structs it is handed.
func (w *world) replRun(proj *Project, bo buildOpts) error {
	thread, globals := proj.REPLEnv(io.Discard, &label.Label{Kind: "module", Package: "//"})
	run, ok := globals["run"].(starlark.Callable)
	if !ok {
		return fmt.Errorf("the REPL environment has no run builtin")
	}
	cb := starlark.NewBuiltin("record_event", func(_ *starlark.Thread, _ *starlark.Builtin, args starlark.Tuple, _ []starlark.Tuple) (starlark.Value, error) {
		rec := eventRec{Seq: w.nextSeq()}
		if len(args) == 1 {
			if ev, ok := args[0].(starlark.HasAttrs); ok {
				str := func(name string) string {
					v, err := ev.Attr(name)
					if err != nil || v == nil || v == starlark.None {
						return ""
					}
					if s, ok := starlark.AsString(v); ok {
						return s
					}
					return v.String()
				}
				rec.Kind, rec.Label, rec.Text = str("kind"), str("label"), str("err")
				if rec.Kind == "Print" {
					rec.Text = str("line")
				}
			}
		}
		w.replEvents = append(w.replEvents, rec)
		return starlark.None, nil
	})
	_, err := starlark.Call(thread, run, starlark.Tuple{starlark.String(bo.Label)}, []starlark.Tuple{
		{starlark.String("always"), starlark.Bool(bo.Always)},
		{starlark.String("dry_run"), starlark.Bool(bo.DryRun)},
		{starlark.String("callback"), cb},
	})
	return err
}

// startGCHammer makes the Go runtime collect garbage continuously until the returned function
// is called.
func startGCHammer() func() {
	old := debug.SetGCPercent(1)
	var stop atomic.Bool
	done := make(chan struct{})
	go func() {
		for !stop.Load() {
			runtime.GC()
		}
		close(done)
	}()
	return func() {
		stop.Store(true)
		<-done
		debug.SetGCPercent(old)
	}
}

// ---------------------------------------------------------------- scratch directories

var scratchSerial int

func newScratch() (string, error) {
	base := os.Getenv("VERIF_SCRATCH")
	if base == "" {
		base = filepath.Join(os.TempDir(), fmt.Sprintf("verif-scratch-%d", os.Getpid()))
	}
	scratchSerial++
	dir := filepath.Join(base, fmt.Sprintf("c%d", scratchSerial))
	os.RemoveAll(dir)
	if err := os.MkdirAll(filepath.Join(dir, "proj"), 0755); err != nil {
		return "", err
	}
	if err := os.MkdirAll(filepath.Join(dir, "home", "tmp"), 0755); err != nil {
		return "", err
	}
	return dir, nil
}

func newWorld(c *simcheck.Ctx) (*world, func(), error) {
	dir, err := newScratch()
	if err != nil {
		return nil, nil, err
	}
	home := filepath.Join(dir, "home")
	os.Setenv("HOME", home)
	homedir.DisableCache = true
	w := &world{root: filepath.Join(dir, "proj"), home: home, bodies: map[string]*bodySpec{}, failing: map[string]bool{}, written: map[string]string{}, ctx: c}
	return w, func() { os.RemoveAll(dir) }, nil
}

// treeHash hashes names and contents of everything under dir (optionally skipping a prefix).
func treeHash(dir string, skip func(rel string) bool) string {
	if real, err := filepath.EvalSymlinks(dir); err == nil {
		dir = real // the walk does not follow a link given as its root
	}
	h := sha256.New()
	var paths []string
	filepath.WalkDir(dir, func(p string, d os.DirEntry, err error) error {
		if err != nil {
			return nil
		}
		rel, _ := filepath.Rel(dir, p)
		if skip != nil && skip(rel) {
			if d.IsDir() {
				return filepath.SkipDir
			}
			return nil
		}
		paths = append(paths, rel)
		return nil
	})
	sort.Strings(paths)
	for _, rel := range paths {
		p := filepath.Join(dir, rel)
		st, err := os.Lstat(p)
		if err != nil {
			continue
		}
		if st.IsDir() {
			fmt.Fprintf(h, "D %s\n", rel)
			continue
		}
		b, _ := os.ReadFile(p)
		fmt.Fprintf(h, "F %s %d %x\n", rel, len(b), sha256.Sum256(b))
	}
	return hex.EncodeToString(h.Sum(nil))
}

func copyTree(src, dst string, skip func(rel string) bool) error {
	if real, err := filepath.EvalSymlinks(src); err == nil {
		src = real
	}
	return filepath.WalkDir(src, func(p string, d os.DirEntry, err error) error {
		if err != nil {
			return err
		}
		rel, _ := filepath.Rel(src, p)
		if skip != nil && skip(rel) {
			if d.IsDir() {
				return filepath.SkipDir
			}
			return nil
		}
		target := filepath.Join(dst, rel)
		if d.IsDir() {
			return os.MkdirAll(target, 0755)
		}
		if d.Type()&os.ModeSymlink != 0 {
			l, err := os.Readlink(p)
			if err != nil {
				return err
			}
			os.Remove(target)
			return os.Symlink(l, target)
		}
		b, err := os.ReadFile(p)
		if err != nil {
			return err
		}
		return os.WriteFile(target, b, 0644)
	})
}
