package dawn

// C13 — a dry run has no effects and predicts the real build.
// C14 — garbage collection never changes build outcomes.

import (
	"bytes"
	"fmt"
	"math/rand/v2"
	"net/url"
	"os"
	"path/filepath"
	"sort"
	"strings"

	"verif.local/sim/simcheck"
	"verif.local/sim/simrt"
)

// ---------------------------------------------------------------- C13

func c13Gen(r *rand.Rand, tier string) any {
	sc := &histScenario{Spec: genProject(r, defaultGenOpts(tier)), Proc: genProc(r)}
	shadow := sc.clone().Spec
	n := 2 + r.IntN(5)
	for i := 0; i < n; i++ {
		if i > 0 || r.IntN(3) == 0 {
			for k := 0; k < r.IntN(3); k++ {
				op := genSemanticEdit(r, shadow, 10*i+k+1)
				shadow.applySpecEdit(op)
				sc.Ops = append(sc.Ops, *op)
			}
		}
		if r.IntN(5) == 0 {
			// a generated file that another target uses as a source is modified in place
			var gens []string
			for ti := range shadow.Targets {
				if len(shadow.Targets[ti].Generates) > 0 {
					gens = append(gens, shadow.Targets[ti].label())
				}
			}
			if len(gens) > 0 {
				sc.Ops = append(sc.Ops, opSpec{Op: "scribble-generated", Label: gens[r.IntN(len(gens))], N: r.IntN(2)})
			}
		}
		label := pickLabel(r, shadow)
		always := r.IntN(8) == 0
		broken := ""
		if i > 0 && r.IntN(6) == 0 {
			// a source of the closure is unreadable while the dry run happens, and back afterwards
			for _, t := range shadow.closure(label) {
				for _, s := range t.Sources {
					rel := shadow.sourceRel(t, s)
					if _, ok := shadow.Files[rel]; ok && broken == "" {
						broken = rel
					}
				}
			}
			if broken != "" {
				sc.Ops = append(sc.Ops, opSpec{Op: "break-source", Path: broken})
			}
		}
		for d := 0; d < 1+r.IntN(2); d++ {
			sc.Ops = append(sc.Ops, opSpec{Op: "build", Label: label, Dry: true, Always: always})
		}
		if broken != "" {
			sc.Ops = append(sc.Ops, opSpec{Op: "restore-source", Path: broken})
		}
		real := opSpec{Op: "build", Label: label, Always: always}
		if r.IntN(5) == 0 {
			// the REPL / watch pattern: dry run and real run on one loaded project
			real = opSpec{Op: "build", Label: label, DryNil: true, N: r.IntN(2)}
		} else if r.IntN(4) == 0 {
			for _, t := range shadow.closure(label) {
				if r.IntN(3) == 0 {
					real.Fail = append(real.Fail, t.label())
				}
			}
		} else if i < n-1 && r.IntN(5) == 0 {
			// the real build is interrupted: the dry runs that follow see a half-recorded state
			real.CrashAt = 1 + r.IntN(600)
			if r.IntN(2) == 0 {
				// ... a forced build, killed between the two record writes of a source file
				real.CrashAt, real.Always, real.CrashAfterSourceSave = 0, true, 1+r.IntN(3)
			}
		}
		sc.Ops = append(sc.Ops, real)
	}
	return sc
}

func evaluatingSet(events []eventRec) map[string]bool {
	out := map[string]bool{}
	for _, e := range events {
		if e.Kind == "TargetEvaluating" {
			out[e.Label] = true
		}
	}
	return out
}

func setString(m map[string]bool) string {
	var ks []string
	for k := range m {
		ks = append(ks, k)
	}
	sort.Strings(ks)
	return strings.Join(ks, " ")
}

func notDawn(rel string) bool { return false }

// runHistory executes a history; skip(i) drops operation i (but keeps the numbering, so
// the remaining operations run under identical tapes). It returns per-operation started
// labels, or a violation found by `each`.
func runHistory(c *simcheck.Ctx, sc *histScenario, prefix string, skip func(i int, op *opSpec) bool,
	each func(h *histRun, i int, op *opSpec, res *procResult) *simcheck.Violation) (map[int][]string, map[string][]byte, *simcheck.Violation, bool) {
	h, err := newHistRun(c, sc)
	if err != nil {
		return nil, nil, simcheck.V(simcheck.EngineError, "setup: %v", err), false
	}
	defer h.cleanup()
	h.prefix = prefix
	starts := map[int][]string{}
	first := true
	for i := range sc.Ops {
		op := &sc.Ops[i]
		if skip != nil && skip(i, op) {
			continue
		}
		if !isProcessOp(op.Op) {
			if op.Op != "nop" {
				if err := h.edit(i, op); err != nil {
					return nil, nil, simcheck.V(simcheck.EngineError, "edit: %v", err), false
				}
			}
			continue
		}
		if op.Op == "build" && h.p.resolve(op.Label) == nil && !strings.Contains(op.Label, "no_such") {
			continue
		}
		h.w.events = nil
		pc := h.pc
		if ioErrOps && op.Op == "build" && op.N > 0 && !op.DryNil {
			pc.IOErrAt = map[int]int{op.N: op.N}
		}
		pc.CrashAt = op.CrashAt
		var hook func(step int, kind, detail string)
		if k := op.CrashAfterSourceSave; k > 0 {
			renames := 0
			hook = func(step int, kind, detail string) {
				if kind == "os.rename" && strings.Contains(detail, "sources/") {
					if renames++; renames == 2*k-1 && h.w.sim != nil {
						h.w.sim.Cfg.CrashAt = step + 1 // the rename happens, then the process dies
					}
				}
			}
		}
		res := h.build(i, op, pc, hook)
		if res.Sim.Crashed && op.CrashAfterSourceSave > 0 {
			c.St.Count("builds_killed_between_the_two_record_writes_of_a_source", 1)
		}
		if res.Sim.Crashed {
			c.St.Count("interrupted_builds", 1)
			if ents, err := os.ReadDir(filepath.Join(h.w.root, ".dawn", "build", "temp")); err == nil && len(ents) > 0 {
				c.St.Probes["temporaries_left_by_interrupted_build"]++
			}
			first = false
			starts[i] = nil
			if crashHook != nil {
				crashHook()
			}
			continue
		}
		if v := procFailure(res); v != nil {
			if v.Class == simcheck.EngineError {
				return nil, nil, v, false
			}
			c.St.Count("process_failure_"+v.Class, 1)
			return nil, nil, nil, false
		}
		if res.LoadErr != nil {
			if pc.IOErrAt != nil {
				c.St.Count("load_failed_under_injected_io_error", 1)
				continue
			}
			if h.p.anyModuleFails() {
				c.St.Count("load_failed_on_a_broken_module", 1)
				starts[i] = nil
				continue
			}
			if first {
				return nil, nil, simcheck.V(simcheck.EngineError, "generated project does not load: %v", res.LoadErr), false
			}
			c.St.Count("load_error_mid_history", 1)
			return nil, nil, nil, false
		}
		first = false
		st := h.startsIn(i)
		sort.Strings(st)
		starts[i] = st
		if each != nil {
			if v := each(h, i, op, res); v != nil {
				return nil, nil, v, false
			}
		}
	}
	// final generated files
	outs := map[string][]byte{}
	for ti := range h.p.Targets {
		t := &h.p.Targets[ti]
		for _, g := range t.Generates {
			rel := filepath.Join(pkgDir(t.Pkg), g)
			b, err := os.ReadFile(filepath.Join(h.w.root, rel))
			if err == nil {
				outs[rel] = b
			}
		}
	}
	return starts, outs, nil, true
}

func c13Exec(scAny any, c *simcheck.Ctx) *simcheck.Violation {
	sc := scAny.(*histScenario)
	if sc.Spec == nil || len(sc.Spec.Targets) == 0 {
		return nil
	}
	var dryEval map[string]bool
	dryLabel := ""
	dryAlways := false
	var before string
	each := func(h *histRun, i int, op *opSpec, res *procResult) *simcheck.Violation {
		if op.Op != "build" {
			dryEval = nil
			return nil
		}
		if op.DryNil {
			c.St.Count("dry_then_real_on_one_project", 1)
			dryEval = nil
			return nil
		}
		if op.Dry {
			c.St.Count("dry_runs", 1)
			if len(h.startsIn(i)) > 0 {
				return simcheck.V("dry-run-executed", "a dry run of %s executed the body of %s", op.Label, h.startsIn(i)[0])
			}
			after := treeHash(h.w.root, nil)
			if before != "" && before != after {
				return simcheck.V("dry-run-wrote", "a dry run of %s changed files (project or persisted build state) between the end of its load and the end of the run", op.Label)
			}
			if res.RunErr == nil {
				dryEval, dryLabel, dryAlways = evaluatingSet(h.w.events), op.Label, op.Always
			} else {
				dryEval = nil
			}
			return nil
		}
		// a real build right after a dry run of the same label on the same tree
		if dryEval != nil && dryLabel == op.Label && dryAlways == op.Always {
			real := evaluatingSet(h.w.events)
			c.St.Count("dry_predictions_checked", 1)
			if res.RunErr == nil {
				if setString(real) != setString(dryEval) {
					return simcheck.V("dry-run-mispredicts", "the dry run of %s reported evaluating {%s} but the real build of the same tree attempted {%s}", op.Label, setString(dryEval), setString(real))
				}
			} else {
				// identical apart from targets downstream of the failure
				failed := map[string]bool{}
				for _, e := range h.w.events {
					if e.Kind == "TargetFailed" {
						failed[e.Label] = true
					}
				}
				for l := range real {
					if !dryEval[l] {
						return simcheck.V("dry-run-mispredicts", "the real build of %s attempted %s, which the dry run did not report", op.Label, l)
					}
				}
				for l := range dryEval {
					if real[l] {
						continue
					}
					if !downstreamOfFailure(h.p, l, failed) {
						return simcheck.V("dry-run-mispredicts", "the dry run of %s reported %s, which the failing real build neither attempted nor has downstream of a failure", op.Label, l)
					}
				}
			}
		}
		dryEval = nil
		return nil
	}
	// the tree hash is taken right after the dry run's load: hook through buildOpts
	hashHook = func(h *world) { before = treeHash(h.root, nil) }
	crashHook = func() { dryEval = nil }
	defer func() { hashHook, crashHook = nil, nil }()
	withDry, outsA, v, okA := runHistory(c, sc, "", nil, each)
	if v != nil {
		return v
	}
	hashHook = nil
	if !okA {
		return nil
	}
	// twin: the same history without the dry runs executes identically
	// (a dry run becomes a load without a run: loading legitimately writes - the state
	// directories, index.json - and an interrupted build that follows is placed by step count)
	twin := sc.clone()
	for i := range twin.Ops {
		twin.Ops[i].DryNil = false
		if twin.Ops[i].Op == "build" && twin.Ops[i].Dry {
			twin.Ops[i] = opSpec{Op: "load-only"}
		}
	}
	// the twin replays exactly the choices the first run consumed, operation by operation
	saved := c.Tapes
	c.Tapes = simrt.NewTapeSet(saved.Seed, saved.Snapshot())
	without, outsB, v, okB := runHistory(c, twin, "", nil, nil)
	c.Tapes = saved
	if v != nil || !okB {
		return v
	}
	for i := range sc.Ops {
		if sc.Ops[i].Op == "build" && !sc.Ops[i].Dry {
			if strings.Join(withDry[i], " ") != strings.Join(without[i], " ") {
				return simcheck.V("dry-run-changes-next-build", "operation %d (build %s) executed {%s} after dry runs but {%s} in the same history without them", i, sc.Ops[i].Label, strings.Join(withDry[i], " "), strings.Join(without[i], " "))
			}
		}
	}
	for k, a := range outsA {
		if !bytes.Equal(a, outsB[k]) {
			return simcheck.V("dry-run-changes-outputs", "generated file %s differs between the history with dry runs and the one without", k)
		}
	}
	c.St.Count("twin_histories_compared", 1)
	return nil
}

// downstreamOfFailure: l is a failed target, or (transitively) depends on one.
func downstreamOfFailure(p *projSpec, l string, failed map[string]bool) bool {
	if failed[l] {
		return true
	}
	// source labels: source://pkg:name
	if strings.HasPrefix(l, "source:") {
		rest := strings.TrimPrefix(l, "source:")
		i := strings.LastIndexByte(rest, ':')
		if i < 0 {
			return false
		}
		rel := filepath.Join(pkgDir(rest[:i]), rest[i+1:])
		if g := p.generatorOf(rel); g != nil {
			return downstreamOfFailure(p, g.label(), failed)
		}
		return false
	}
	t := p.resolve(l)
	if t == nil {
		return false
	}
	for _, d := range p.closure(t.label()) {
		if failed[d.label()] {
			return true
		}
		for _, s := range d.Sources {
			if failed[sourceLabelOf(p, d, s)] {
				return true
			}
		}
	}
	return false
}

func sourceLabelOf(p *projSpec, t *targetSpec, s string) string {
	rel := p.sourceRel(t, s)
	dir, name := "", rel
	if i := strings.LastIndexByte(rel, '/'); i >= 0 {
		dir, name = rel[:i], rel[i+1:]
	}
	return "source://" + dir + ":" + name
}

func (p *projSpec) anyModuleFails() bool {
	for i := range p.Modules {
		if p.Modules[i].Fails {
			return true
		}
	}
	return false
}

// crashHook, if set, is told about every interrupted build of a history.
var crashHook func()

// ioErrOps makes runHistory inject an I/O error at operation op.N of a build (C18).
var ioErrOps bool

// hashHook is called by world.process between Load and Run.
var hashHook func(w *world)

// ---------------------------------------------------------------- C14

func c14Gen(r *rand.Rand, tier string) any {
	sc := &histScenario{Spec: genProject(r, defaultGenOpts(tier)), Proc: genProc(r)}
	sc.Proc.ViaLink = r.IntN(6) == 0 // the checkout is reached through a symbolic link
	shadow := sc.clone().Spec
	n := 4 + r.IntN(6)
	sc.Ops = append(sc.Ops, opSpec{Op: "build", Label: pickLabel(r, shadow)})
	removed := 0
	seenGC := false
	broken := -1
	for i := 0; i < n; i++ {
		switch k := r.IntN(12); {
		case k < 3:
			op := genSemanticEdit(r, shadow, i+1)
			shadow.applySpecEdit(op)
			sc.Ops = append(sc.Ops, *op)
		case k < 5 && len(shadow.Targets) > 1:
			// remove a target nothing depends on (its label is never re-created)
			for ti := range shadow.Targets {
				l := shadow.Targets[ti].label()
				used := false
				for tj := range shadow.Targets {
					for _, d := range shadow.Targets[tj].Deps {
						if d == l {
							used = true
						}
					}
					for _, rf := range shadow.Targets[tj].Refs {
						if rf.Kind == "target" && shadow.Targets[tj].Pkg == shadow.Targets[ti].Pkg && rf.Name == shadow.Targets[ti].Name {
							used = true
						}
					}
					for _, s := range shadow.Targets[tj].Sources {
						if g := shadow.generatorOf(shadow.sourceRel(&shadow.Targets[tj], s)); g != nil && g.label() == l {
							used = true
						}
					}
				}
				if !used {
					op := opSpec{Op: "remove-target", Label: l}
					shadow.applySpecEdit2(&op)
					sc.Ops = append(sc.Ops, op)
					removed++
					break
				}
			}
		case k < 6:
			op := opSpec{Op: "add-target", N: 100 + i, Label: shadow.Packages[r.IntN(len(shadow.Packages))].Path}
			shadow.applySpecEdit2(&op)
			sc.Ops = append(sc.Ops, op)
		case k < 9:
			seenGC = true
			gc := opSpec{Op: "gc", Index: r.IntN(2) == 0} // `dawn gc` loads from the index when it can
			if !gc.Index {
				// a long-lived process: collect on the project the previous operation loaded,
				// after a Reload or as it is
				gc.Reload = r.IntN(3) == 0
				gc.Keep = !gc.Reload && r.IntN(4) == 0
			}
			sc.Ops = append(sc.Ops, gc)
			if broken < 0 && len(shadow.Modules) > 0 && r.IntN(5) == 0 {
				// a typo in a helper module: loads fail until it is repaired (index-based loads
				// do not notice)
				broken = r.IntN(len(shadow.Modules))
				sc.Ops = append(sc.Ops, opSpec{Op: "set-module-fails", Item: fmt.Sprint(broken), N: 1 + r.IntN(3)},
					opSpec{Op: "build", Label: pickLabel(r, shadow)}, opSpec{Op: "gc", Index: true})
				if r.IntN(2) == 0 {
					sc.Ops = append(sc.Ops, opSpec{Op: "set-module-fails", Item: fmt.Sprint(broken), N: 0})
					broken = -2
				}
			}
		default:
			op := opSpec{Op: "build", Label: pickLabel(r, shadow)}
			// watch mode: the project of the previous build is reloaded, not loaded afresh
			op.Reload = r.IntN(3) == 0
			if r.IntN(6) == 0 {
				// a long-lived process collects as soon as a build has returned - here a build
				// in which one dependency fails while its sibling is still busy
				if tl, xl, _ := shapeOverlap(r, shadow, sc.Spec); tl != "" {
					sc.Ops = append(sc.Ops, opSpec{Op: "build", Label: tl, Fail: []string{xl}, Always: true, GCAfter: true})
					seenGC = true
					continue
				}
			}
			if r.IntN(4) == 0 && !seenGC {
				// an interrupted build leaves temporaries behind. Only before the first
				// collection: a crash is placed by step count, and the two twin histories take
				// the same steps only while they have done the same things
				op.CrashAt = 1 + r.IntN(600)
			} else if r.IntN(6) == 0 {
				for _, t := range shadow.closure(op.Label) {
					if r.IntN(3) == 0 {
						op.Fail = append(op.Fail, t.label())
					}
				}
			}
			sc.Ops = append(sc.Ops, op)
		}
	}
	if broken >= 0 {
		sc.Ops = append(sc.Ops, opSpec{Op: "set-module-fails", Item: fmt.Sprint(broken), N: 0})
	}
	// the last build sometimes runs on the project the collection loaded (a REPL session)
	sc.Ops = append(sc.Ops, opSpec{Op: "gc"}, opSpec{Op: "build", Label: pickLabel(r, shadow), Keep: r.IntN(2) == 0, Always: r.IntN(2) == 0})
	return sc
}

// applySpecEdit2 handles the target add/remove operations (C14).
// listedButMissing: the record file (relative to .dawn/build) is that of a plain source file
// some target lists by name and that does not exist in the tree.
func (p *projSpec) listedButMissing(record string) bool {
	if !strings.HasPrefix(record, "sources/") {
		return false
	}
	name, err := url.PathUnescape(strings.TrimPrefix(record, "sources/"))
	if err != nil {
		return false
	}
	name = strings.TrimPrefix(name, "/")
	for i := range p.Targets {
		t := &p.Targets[i]
		for _, s := range t.Sources {
			if rel := p.sourceRel(t, s); rel == filepath.Clean(name) {
				if _, ok := p.Files[rel]; !ok && p.generatorOf(rel) == nil {
					return true
				}
			}
		}
	}
	return false
}

func (p *projSpec) applySpecEdit2(op *opSpec) bool {
	switch op.Op {
	case "remove-target":
		for i := range p.Targets {
			if p.Targets[i].label() == op.Label {
				t := p.Targets[i]
				p.Targets = append(p.Targets[:i:i], p.Targets[i+1:]...)
				// its private source files go with it (not the ones another target names too)
				for _, s := range t.Sources {
					rel := p.sourceRel(&t, s)
					shared := false
					for j := range p.Targets {
						for _, s2 := range p.Targets[j].Sources {
							if r2 := p.sourceRel(&p.Targets[j], s2); r2 == rel || strings.HasPrefix(r2, rel+"/") || strings.HasPrefix(rel, r2+"/") {
								shared = true
							}
						}
					}
					if shared {
						continue
					}
					for f := range p.Files {
						if f == rel || strings.HasPrefix(f, rel+"/") {
							delete(p.Files, f)
						}
					}
				}
				return true
			}
		}
		return true
	case "add-target":
		name := fmt.Sprintf("n%d", op.N)
		t := targetSpec{Pkg: op.Label, Name: name, Form: "decorator", Generates: []string{name + ".out"}, Sources: []string{"src_" + name + ".txt"}}
		if p.pkg(op.Label) == nil {
			return true
		}
		p.Files[filepath.Join(pkgDir(op.Label), "src_"+name+".txt")] = "new source\n"
		p.Targets = append(p.Targets, t)
		return true
	}
	return false
}

func recordFiles(root string) map[string][]byte {
	if real, err := filepath.EvalSymlinks(root); err == nil {
		root = real
	}
	out := map[string][]byte{}
	for _, sub := range []string{"targets", "sources"} {
		dir := filepath.Join(root, ".dawn", "build", sub)
		filepath.WalkDir(dir, func(p string, d os.DirEntry, err error) error {
			if err != nil || d.IsDir() {
				return nil
			}
			rel, _ := filepath.Rel(filepath.Join(root, ".dawn", "build"), p)
			b, _ := os.ReadFile(p)
			out[rel] = b
			return nil
		})
	}
	return out
}

// liveRecordNames: the record files a from-scratch load + build of every label of the
// current tree creates (the harness does not mirror dawn's path scheme).
// freshLoadRecords: what a load alone (no build) writes for every record, in a copy of the
// tree without build state. A record with exactly these bytes holds nothing a load would not
// recreate.
func (h *histRun) freshLoadRecords(tag string) map[string][]byte {
	w2, cleanup, err := newWorld(h.w.ctx)
	if err != nil {
		return nil
	}
	defer cleanup()
	if err := copyTree(h.w.root, w2.root, func(rel string) bool { return rel == ".dawn" }); err != nil {
		return nil
	}
	w2.bodies = h.p.bodySpecs(w2.root)
	w2.exts = h.w.exts
	res := w2.process(fmt.Sprintf("%sfresh-%s", h.prefix, tag), h.pc, buildOpts{LoadOnly: true, Args: h.p.args()}, nil)
	h.w.ctx.Sim(res.Sim, simcheck.ScenarioHash(h.p), h.pc.Strategy)
	if res.Sim.Failure != nil || res.LoadErr != nil {
		return nil
	}
	return recordFiles(w2.root)
}

func (h *histRun) liveRecordNames(tag string) (map[string]bool, *simcheck.Violation) {
	w2, cleanup, err := newWorld(h.w.ctx)
	if err != nil {
		return nil, simcheck.V(simcheck.EngineError, "scratch: %v", err)
	}
	defer cleanup()
	if err := copyTree(h.w.root, w2.root, func(rel string) bool { return rel == ".dawn" }); err != nil {
		return nil, simcheck.V(simcheck.EngineError, "copy: %v", err)
	}
	w2.bodies = h.p.bodySpecs(w2.root)
	w2.exts = h.w.exts
	pc := h.pc
	for i, l := range h.p.buildLabels() {
		res := w2.process(fmt.Sprintf("%slive-%s-%d", h.prefix, tag, i), pc, buildOpts{Label: l, Args: h.p.args()}, nil)
		h.w.ctx.Sim(res.Sim, simcheck.ScenarioHash(h.p), pc.Strategy)
		if res.Sim.Stuck {
			return nil, simcheck.V(simcheck.EngineError, "watchdog")
		}
		if res.Sim.Failure != nil || res.LoadErr != nil || res.RunErr != nil {
			return nil, nil
		}
	}
	names := map[string]bool{}
	for n := range recordFiles(w2.root) {
		names[n] = true
	}
	return names, nil
}

func c14Exec(scAny any, c *simcheck.Ctx) *simcheck.Violation {
	sc := scAny.(*histScenario)
	if sc.Spec == nil || len(sc.Spec.Targets) == 0 {
		return nil
	}
	var beforeRecords map[string][]byte
	var outsideBefore string
	outside := func(rel string) bool { return rel == filepath.Join(".dawn", "build") }
	hashHook = func(w *world) {
		beforeRecords = recordFiles(w.root)
		outsideBefore = treeHash(w.root, outside)
	}
	defer func() { hashHook = nil }()
	gcSerial := 0
	each := func(h *histRun, i int, op *opSpec, res *procResult) *simcheck.Violation {
		if op.Op != "gc" {
			return nil
		}
		if res.RunErr != nil {
			return simcheck.V("gc-failed", "garbage collection failed: %v", res.RunErr)
		}
		c.St.Count("collections", 1)
		if outsideBefore != treeHash(h.w.root, outside) {
			return simcheck.V("gc-touched-project", "garbage collection changed files outside the build-state directory")
		}
		if ents, err := os.ReadDir(filepath.Join(h.w.root, ".dawn", "build", "temp")); err == nil && len(ents) > 0 {
			return simcheck.V("gc-left-temporaries", "garbage collection left %d stray temporaries (%s ...)", len(ents), ents[0].Name())
		}
		gcSerial++
		live, v := h.liveRecordNames(fmt.Sprint(gcSerial))
		if v != nil {
			return v
		}
		if live == nil {
			c.St.Count("live_set_unavailable", 1)
			return nil
		}
		after := recordFiles(h.w.root)
		if os.Getenv("VERIF_DEBUG_C14") != "" {
			var a, l []string
			for n := range after {
				a = append(a, n)
			}
			for n := range live {
				l = append(l, n)
			}
			sort.Strings(a)
			sort.Strings(l)
			fmt.Fprintf(os.Stderr, "C14 op %d %+v\n  after: %v\n  live:  %v\n", i, *op, a, l)
		}
		for n, b := range beforeRecords {
			if !live[n] {
				continue
			}
			a, ok := after[n]
			if !ok && op.Index {
				// a collection that loaded the project from its index does not know a target
				// added since the last completed full load; dropping the record a load wrote for
				// it (and would write again, byte for byte) loses nothing
				if fresh := h.freshLoadRecords(fmt.Sprint("t", gcSerial)); fresh != nil && bytes.Equal(fresh[n], b) {
					c.St.Count("index_gc_dropped_load_only_record", 1)
					continue
				}
			}
			if !ok {
				return simcheck.V("gc-removed-live-record", "garbage collection removed the record %s of a target or source that exists", n)
			}
			if !bytes.Equal(a, b) {
				return simcheck.V("gc-changed-live-record", "garbage collection changed the record %s of a target or source that exists", n)
			}
		}
		for n := range after {
			// a collection that loaded the project from its index knows the targets of the last
			// full load; records of targets removed since then are not dead to it yet
			// (nor to a collection on a project that was loaded before the latest edits and not reloaded)
			if !live[n] && !op.Index && !op.Keep {
				if h.p.listedButMissing(n) {
					// the record of a source a target lists by name although the file is gone: the
					// label exists, a from-scratch build just has nothing to record for it
					c.St.Count("record_of_a_listed_but_missing_source_kept", 1)
					continue
				}
				return simcheck.V("gc-kept-dead-record", "after garbage collection the record %s remains although no target or source of the project has it", n)
			}
		}
		c.St.Count("collections_fully_checked", 1)
		return nil
	}
	gcSeen := false
	for i := range sc.Ops {
		if sc.Ops[i].Op == "gc" {
			gcSeen = true
		}
		if gcSeen && sc.Ops[i].CrashAt > 0 {
			return nil // not a twin-comparable history (see c14Gen)
		}
	}
	withGC, outsA, v, okA := runHistory(c, sc, "", nil, each)
	if v != nil {
		return v
	}
	hashHook = nil
	if !okA {
		return nil
	}
	// the twin loads the project wherever the first history collected, but does not collect:
	// both histories then consist of the same processes, apart from the collection itself
	twin := sc.clone()
	for i := range twin.Ops {
		twin.Ops[i].GCAfter = false
		if twin.Ops[i].Op == "gc" {
			twin.Ops[i].Op = "load-only"
		}
	}
	saved := c.Tapes
	c.Tapes = simrt.NewTapeSet(saved.Seed, saved.Snapshot())
	without, outsB, v, okB := runHistory(c, twin, "", nil, nil)
	c.Tapes = saved
	if v != nil || !okB {
		return v
	}
	for i := range sc.Ops {
		if sc.Ops[i].Op == "build" {
			if strings.Join(withGC[i], " ") != strings.Join(without[i], " ") {
				return simcheck.V("gc-changes-builds", "operation %d (build %s) executed {%s} in the history with collections but {%s} without them", i, sc.Ops[i].Label, strings.Join(withGC[i], " "), strings.Join(without[i], " "))
			}
		}
	}
	for k, a := range outsA {
		if !bytes.Equal(a, outsB[k]) {
			return simcheck.V("gc-changes-outputs", "generated file %s differs between the history with collections and the one without", k)
		}
	}
	c.St.Count("twin_histories_compared", 1)
	return nil
}
