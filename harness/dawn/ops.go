package dawn

import (
	"fmt"
	"math/rand/v2"
	"os"
	"path/filepath"
	"sort"
	"strconv"
	"strings"
	"time"
)

// opSpec is one operation of a history.
type opSpec struct {
	Op      string   `json:"op"`
	Label   string   `json:"label,omitempty"` // build label / target label
	Path    string   `json:"path,omitempty"`  // root-relative path
	Item    string   `json:"item,omitempty"`  // semantic item id
	Always  bool     `json:"always,omitempty"`
	Dry     bool     `json:"dry,omitempty"`
	Fail    []string `json:"fail,omitempty"` // labels whose bodies fail in this build
	Index   bool     `json:"prefer_index,omitempty"`
	Twice   bool     `json:"run_twice,omitempty"`
	Reload  bool     `json:"reload,omitempty"`               // watch mode: Reload() the Project of the previous operation instead of a fresh Load
	Keep    bool     `json:"keep_project,omitempty"`         // REPL: Run again on the Project of the previous operation, no reload (only when no code was edited since)
	DryNil  bool     `json:"dry_then_nil_options,omitempty"` // on one loaded project: a dry run, (N=1: Reload,) then Run with nil options
	N       int      `json:"n,omitempty"`
	CrashAt int      `json:"crash_at,omitempty"`           // the simulated process dies at this scheduler step
	IOErrPM int      `json:"io_error_per_mille,omitempty"` // every file operation of this process fails with this probability
	// Between (with run_twice): a source edit the process applies between its two runs
	// (watch mode: the edit lands right after a build returned; bodies told to fail do so in
	// the first run only). GCAfter: the process collects garbage right after its build returned.
	Between *opSpec `json:"between,omitempty"`
	GCAfter bool    `json:"gc_after_run,omitempty"`
	// FailLate: failing bodies write (half of) their outputs before they fail. SecondPlain
	// (with run_twice): the second run of the process is not forced although the first was.
	// CrashAfterSourceSave (k > 0): the process dies right after the first of the two record
	// writes of the k-th source file it evaluates (the record then carries the must-re-run mark
	// although nothing about the file changed).
	CrashAfterSourceSave int `json:"crash_after_first_save_of_source,omitempty"`
	// NetFailAt: the k-th repository operation of this process fails (a fetch that cannot
	// complete); with reload, the failed reload is followed by another one later.
	NetFailAt int `json:"network_fails_at,omitempty"`
	// REPL: the build is started through the REPL's run(label, always=, dry_run=, callback=)
	// builtin; the events reach a Starlark callback through dawn's channel-based adapter.
	REPL        bool `json:"via_repl_run_builtin,omitempty"`
	FailLate    bool `json:"fail_after_writing,omitempty"`
	SecondPlain bool `json:"second_run_not_forced,omitempty"`
}

// Edit classes.
const (
	clsSemantic = "semantic" // changes an input of the targets the model names
	clsNoop     = "noop"     // must not cause any execution (C02)
	clsDontCare = "dontcare" // may or may not cause executions
)

func splitItem(item string) []string { return strings.Split(item, "|") }

// semanticItems lists every editable item id of the project.
func (p *projSpec) semanticItems() []string {
	var out []string
	for _, pk := range p.Packages {
		for _, g := range pk.Globals {
			out = append(out, fmt.Sprintf("global|%s|%s", pk.Path, g.Name))
		}
	}
	for i := range p.Targets {
		for k, r := range p.Targets[i].Refs {
			if r.Kind == "lit" || r.Kind == "default" || r.Kind == "freevar" || r.Kind == "twins" || r.Kind == "cacheonce" || r.Kind == "lateglobal" || r.Kind == "structfn" || r.Kind == "kwonly" || r.Kind == "fnkeys" || r.Kind == "dag" || r.Kind == "manynested" {
				out = append(out, fmt.Sprintf("ref|%s|%d", p.Targets[i].label(), k))
			}
			if r.Kind == "twins" || r.Kind == "lateglobal" {
				out = append(out, fmt.Sprintf("ref2|%s|%d", p.Targets[i].label(), k))
			}
		}
	}
	for mi, m := range p.Modules {
		for _, c := range m.Consts {
			out = append(out, fmt.Sprintf("const|%d|%s", mi, c.Name))
		}
		for _, f := range m.Funcs {
			out = append(out, fmt.Sprintf("hlit|%d|%s", mi, f.Name))
		}
	}
	return out
}

func bump(v *valueSpec, n int) {
	if n == 0 {
		n = 1
	}
	v.V += n // a negative n undoes an earlier edit
}

// applySpecEdit mutates the spec for spec-level edits. It reports whether the op was one.
func (p *projSpec) applySpecEdit(op *opSpec) bool {
	switch op.Op {
	case "edit-item":
		f := splitItem(op.Item)
		switch f[0] {
		case "global":
			pk := p.pkg(f[1])
			if pk == nil {
				return true
			}
			for i := range pk.Globals {
				if pk.Globals[i].Name == f[2] {
					bump(&pk.Globals[i].Val, op.N)
				}
			}
		case "ref":
			t := p.target(f[1])
			k, _ := strconv.Atoi(f[2])
			if t != nil && k < len(t.Refs) {
				bump(&t.Refs[k].Val, op.N)
			}
		case "ref2":
			t := p.target(f[1])
			k, _ := strconv.Atoi(f[2])
			if t != nil && k < len(t.Refs) {
				bump(&t.Refs[k].Val2, op.N)
			}
		case "const":
			mi, _ := strconv.Atoi(f[1])
			if mi < len(p.Modules) {
				for i := range p.Modules[mi].Consts {
					if p.Modules[mi].Consts[i].Name == f[2] {
						bump(&p.Modules[mi].Consts[i].Val, op.N)
					}
				}
			}
		case "hlit":
			mi, _ := strconv.Atoi(f[1])
			if mi < len(p.Modules) {
				for i := range p.Modules[mi].Funcs {
					if p.Modules[mi].Funcs[i].Name == f[2] {
						bump(&p.Modules[mi].Funcs[i].Lit, op.N)
					}
				}
			}
		}
	case "flag-arg":
		p.FlagArg = fmt.Sprintf("a%d", op.N)
	case "bump-req":
		// the root's dawn.toml requires another version of a project (upgrade or downgrade)
		if e, err := strconv.Atoi(op.Item); err == nil && e >= 0 && e < len(p.Exts) && p.Exts[e].Sel >= 0 {
			p.Exts[e].Sel = ((op.N % len(extVersions)) + len(extVersions)) % len(extVersions)
		}
	case "edit-source":
		if _, ok := p.Files[op.Path]; ok {
			p.Files[op.Path] = fmt.Sprintf("content of %s v%d\n", filepath.Base(op.Path), op.N)
		}
	case "delete-source":
		// a listed source file is deleted (it stays listed); undone by restore-deleted-source
		delete(p.Files, op.Path)
	case "restore-deleted-source":
		p.Files[op.Path] = fmt.Sprintf("content of %s v0\n", filepath.Base(op.Path))
	case "dir-add":
		p.Files[filepath.Join(op.Path, fmt.Sprintf("added%d.txt", op.N))] = fmt.Sprintf("added %d\n", op.N)
	case "dir-remove":
		names := p.plainUnder(op.Path)
		if len(names) > 1 {
			delete(p.Files, names[op.N%len(names)])
		}
	case "dir-rename":
		names := p.plainUnder(op.Path)
		if len(names) > 0 {
			old := names[op.N%len(names)]
			content := p.Files[old]
			delete(p.Files, old)
			p.Files[filepath.Join(filepath.Dir(old), fmt.Sprintf("renamed%d_%s", op.N, filepath.Base(old)))] = content
		}
	case "dir-move":
		// move a file into another sub-directory of the source directory, keeping its base name
		names := p.plainUnder(op.Path)
		if len(names) > 0 {
			old := names[op.N%len(names)]
			content := p.Files[old]
			dst := filepath.Join(op.Path, fmt.Sprintf("moved%d", op.N%3), filepath.Base(old))
			if filepath.Dir(old) != filepath.Dir(dst) {
				delete(p.Files, old)
				p.Files[dst] = content
			}
		}
	case "dir-lift":
		// move the last file of a sub-directory up into the parent directory, keeping its
		// base name (the pre-order listing of names may stay the same; the tree does not)
		names := p.plainUnder(op.Path)
		last := map[string]string{}
		for _, n := range names {
			if d := filepath.Dir(n); d != op.Path && n > last[d] {
				last[d] = n
			}
		}
		var cands []string
		for d, n := range last {
			if len(p.plainUnder(d)) > 1 {
				cands = append(cands, n)
			}
		}
		sort.Strings(cands)
		if len(cands) > 0 {
			old := cands[op.N%len(cands)]
			dst := filepath.Join(filepath.Dir(filepath.Dir(old)), filepath.Base(old))
			if _, exists := p.Files[dst]; !exists {
				p.Files[dst] = p.Files[old]
				delete(p.Files, old)
			}
		}
	case "dir-sink":
		// the reverse: a file of the source directory moves into one of its sub-directories
		names := p.plainUnder(op.Path)
		var direct, subs []string
		seen := map[string]bool{}
		for _, n := range names {
			if d := filepath.Dir(n); d == op.Path {
				direct = append(direct, n)
			} else if filepath.Dir(d) == op.Path && !seen[d] {
				seen[d] = true
				subs = append(subs, d)
			}
		}
		if len(direct) > 1 && len(subs) > 0 {
			old := direct[len(direct)-1-op.N%2]
			dst := filepath.Join(subs[op.N%len(subs)], filepath.Base(old))
			if _, exists := p.Files[dst]; !exists {
				p.Files[dst] = p.Files[old]
				delete(p.Files, old)
			}
		}
	case "subdir-rename":
		// rename a sub-directory of the source directory (contents and base names unchanged)
		names := p.plainUnder(op.Path)
		subs := map[string]bool{}
		for _, n := range names {
			rel := strings.TrimPrefix(n, op.Path+"/")
			if i := strings.IndexByte(rel, '/'); i > 0 {
				subs[rel[:i]] = true
			}
		}
		var sl []string
		for sname := range subs {
			sl = append(sl, sname)
		}
		sort.Strings(sl)
		if len(sl) > 0 {
			old := sl[op.N%len(sl)]
			for _, n := range names {
				if strings.HasPrefix(n, op.Path+"/"+old+"/") {
					content := p.Files[n]
					delete(p.Files, n)
					p.Files[op.Path+"/"+old+"_r"+strings.TrimPrefix(n, op.Path+"/"+old)] = content
				}
			}
		}
	case "dir-swap":
		// swap the contents of two files of a directory: same multiset of contents, other names
		names := p.plainUnder(op.Path)
		if len(names) >= 2 {
			a, b := names[0], names[1]
			p.Files[a], p.Files[b] = p.Files[b], p.Files[a]
		}
	case "comment":
		f := splitItem(op.Item)
		switch f[0] {
		case "pkg":
			if pk := p.pkg(f[1]); pk != nil {
				pk.Comment++
			}
		case "mod":
			mi, _ := strconv.Atoi(f[1])
			if mi < len(p.Modules) {
				p.Modules[mi].Comment++
			}
		case "target":
			if t := p.target(f[1]); t != nil {
				t.CommentV++
			}
		}
	case "blank":
		f := splitItem(op.Item)
		switch f[0] {
		case "pkg":
			if pk := p.pkg(f[1]); pk != nil {
				pk.Blank++
			}
		case "mod":
			mi, _ := strconv.Atoi(f[1])
			if mi < len(p.Modules) {
				p.Modules[mi].Blank++
			}
		}
	case "doc":
		if t := p.target(op.Label); t != nil {
			t.DocV++
		}
	case "extra-global":
		if pk := p.pkg(op.Label); pk != nil {
			pk.Extra++
		}
	case "add-dep":
		t, d := p.target(op.Label), p.target(op.Item)
		if t != nil && d != nil && !p.reaches(d, t) && t != d {
			for _, x := range t.Deps {
				if x == op.Item {
					return true
				}
			}
			t.Deps = append(t.Deps, op.Item)
			for len(t.DepSpell) < len(t.Deps) {
				t.DepSpell = append(t.DepSpell, 0)
			}
		}
	case "dir-unadd":
		// undo of dir-add with the same N
		delete(p.Files, filepath.Join(op.Path, fmt.Sprintf("added%d.txt", op.N)))
	case "remove-dep-label":
		// undo of add-dep: the named dependency edge goes away again
		if t := p.target(op.Label); t != nil {
			for k, d := range t.Deps {
				if d == op.Item {
					t.Deps = append(t.Deps[:k:k], t.Deps[k+1:]...)
					if k < len(t.DepSpell) {
						t.DepSpell = append(t.DepSpell[:k:k], t.DepSpell[k+1:]...)
					}
					break
				}
			}
		}
	case "set-module-fails":
		// a helper module gains (N=1) or loses (N=0) a statement that fails while it loads
		mi, _ := strconv.Atoi(op.Item)
		if mi >= 0 && mi < len(p.Modules) {
			p.Modules[mi].Fails, p.Modules[mi].FailHow = op.N != 0, op.N%3
		}
	case "set-always":
		// always= is an attribute of the target() call, not of the function's environment
		if t := p.target(op.Label); t != nil {
			t.Always = op.N != 0
		}
	case "remove-dep":
		if t := p.target(op.Label); t != nil && len(t.Deps) > 0 {
			k := op.N % len(t.Deps)
			t.Deps = append(t.Deps[:k:k], t.Deps[k+1:]...)
			if k < len(t.DepSpell) {
				t.DepSpell = append(t.DepSpell[:k:k], t.DepSpell[k+1:]...)
			}
		}
	default:
		return false
	}
	return true
}

func (p *projSpec) reaches(from, to *targetSpec) bool {
	for _, t := range p.closure(from.label()) {
		if t == to {
			return true
		}
	}
	return false
}

// plainUnder: the regular files under dir (symbolic links stay where they are).
func (p *projSpec) plainUnder(dir string) []string {
	var out []string
	for _, n := range p.filesUnder(dir) {
		if !strings.HasPrefix(p.Files[n], linkMark) {
			out = append(out, n)
		}
	}
	return out
}

func (p *projSpec) filesUnder(dir string) []string {
	var names []string
	for f := range p.Files {
		if strings.HasPrefix(f, dir+"/") {
			names = append(names, f)
		}
	}
	sort.Strings(names)
	return names
}

// applyDiskEdit performs edits that do not change the spec: touches, same-content rewrites,
// deletion of generated files.
func (p *projSpec) applyDiskEdit(root string, op *opSpec) {
	switch op.Op {
	case "touch":
		t := time.Unix(1800000000+int64(op.N), 0)
		os.Chtimes(filepath.Join(root, op.Path), t, t)
	case "rewrite-same":
		full := filepath.Join(root, op.Path)
		if lst, err := os.Lstat(full); err == nil && lst.Mode()&os.ModeSymlink != 0 {
			return // a link (to a file or to a directory) is left alone
		}
		st, err := os.Stat(full)
		if err != nil {
			return
		}
		if !st.IsDir() {
			if lst, err := os.Lstat(full); err == nil && lst.Mode()&os.ModeSymlink != 0 {
				return
			}
			b, _ := os.ReadFile(full)
			os.Remove(full)
			os.WriteFile(full, b, 0644)
			return
		}
		// empty the directory and re-create its files in the opposite order
		names := p.filesUnder(op.Path)
		contents := map[string]string{}
		for _, n := range names {
			if strings.HasPrefix(p.Files[n], linkMark) {
				contents[n] = p.Files[n]
				continue
			}
			b, _ := os.ReadFile(filepath.Join(root, n))
			contents[n] = string(b)
		}
		os.RemoveAll(full)
		os.MkdirAll(full, 0755)
		for i := len(names) - 1; i >= 0; i-- {
			writeEntry(root, names[i], contents[names[i]])
		}
	case "break-source":
		// replace a source file by a symbolic link to itself: reading it fails with ELOOP
		full := filepath.Join(root, op.Path)
		if _, err := os.Lstat(full); err == nil {
			os.Remove(full)
			os.Symlink(filepath.Base(full), full)
		}
	case "restore-source":
		os.Remove(filepath.Join(root, op.Path))
		writeEntry(root, op.Path, p.Files[op.Path])
	case "scribble-generated":
		// a generated file is modified in place (by hand, by another tool)
		if t := p.target(op.Label); t != nil {
			for i, g := range t.Generates {
				if full := filepath.Join(root, pkgDir(t.Pkg), g); op.N == 0 || op.N-1 == i {
					if _, err := os.Stat(full); err == nil {
						os.WriteFile(full, []byte(fmt.Sprintf("scribbled over %d\n", op.N)), 0644)
					}
				}
			}
		}
	case "delete-generated":
		if t := p.target(op.Label); t != nil {
			for i, g := range t.Generates {
				if op.N == 0 || op.N-1 == i {
					os.Remove(filepath.Join(root, pkgDir(t.Pkg), g))
				}
			}
		}
	}
}

// ---------------------------------------------------------------- edit generators

// genSemanticEdit returns an edit that changes an input of at least one target, if possible.
func genSemanticEdit(r *rand.Rand, p *projSpec, serial int) *opSpec {
	for try := 0; try < 8; try++ {
		if len(p.Exts) > 0 && r.IntN(7) == 0 {
			var direct []int
			for e := range p.Exts {
				if p.Exts[e].Sel >= 0 {
					direct = append(direct, e)
				}
			}
			if len(direct) > 0 {
				e := direct[r.IntN(len(direct))]
				return &opSpec{Op: "bump-req", Item: strconv.Itoa(e), N: p.Exts[e].Sel + 1 + r.IntN(len(extVersions)-1)}
			}
		}
		switch r.IntN(10) {
		case 0, 1, 2, 3:
			items := p.semanticItems()
			if len(items) == 0 {
				continue
			}
			return &opSpec{Op: "edit-item", Item: items[r.IntN(len(items))], N: 1 + r.IntN(3)}
		case 4, 5:
			var files []string
			for f := range p.Files {
				files = append(files, f)
			}
			if len(files) == 0 {
				continue
			}
			sort.Strings(files)
			if r.IntN(5) == 0 {
				// a plain file that a target lists by name disappears
				var listed []string
				for i := range p.Targets {
					t := &p.Targets[i]
					for _, s := range t.Sources {
						rel := p.sourceRel(t, s)
						if c, ok := p.Files[rel]; ok && !strings.HasPrefix(c, linkMark) && !strings.Contains(s, "..") {
							listed = append(listed, rel)
						}
					}
				}
				sort.Strings(listed)
				if len(listed) > 0 {
					return &opSpec{Op: "delete-source", Path: listed[r.IntN(len(listed))]}
				}
			}
			return &opSpec{Op: "edit-source", Path: files[r.IntN(len(files))], N: serial}
		case 6:
			dirs := p.sourceDirs()
			if len(dirs) == 0 {
				continue
			}
			return &opSpec{Op: []string{"dir-add", "dir-remove", "dir-rename", "dir-swap", "dir-move", "dir-move", "subdir-rename", "subdir-rename", "dir-lift", "dir-lift", "dir-sink"}[r.IntN(11)], Path: dirs[r.IntN(len(dirs))], N: serial}
		case 7:
			var ts []string
			for i := range p.Targets {
				if len(p.Targets[i].Generates) > 0 {
					ts = append(ts, p.Targets[i].label())
				}
			}
			if len(ts) == 0 {
				continue
			}
			return &opSpec{Op: "delete-generated", Label: ts[r.IntN(len(ts))], N: r.IntN(2)}
		case 8:
			if p.args() == nil && !p.hasFlag() {
				continue
			}
			return &opSpec{Op: "flag-arg", N: serial}
		case 9:
			if len(p.Targets) < 2 {
				continue
			}
			a, b := r.IntN(len(p.Targets)), r.IntN(len(p.Targets))
			if r.IntN(5) == 0 {
				n := 1
				if p.Targets[a].Always {
					n = 0
				}
				return &opSpec{Op: "set-always", Label: p.Targets[a].label(), N: n}
			}
			if r.IntN(2) == 0 {
				return &opSpec{Op: "add-dep", Label: p.Targets[a].label(), Item: p.Targets[b].label()}
			}
			return &opSpec{Op: "remove-dep", Label: p.Targets[a].label(), N: r.IntN(4)}
		}
	}
	return &opSpec{Op: "nop"}
}

func (p *projSpec) hasFlag() bool {
	for _, pk := range p.Packages {
		if pk.Flag != "" {
			return true
		}
	}
	return false
}

func (p *projSpec) sourceDirs() []string {
	seen := map[string]bool{}
	var out []string
	for i := range p.Targets {
		t := &p.Targets[i]
		for _, s := range append(append([]string{}, t.Sources...), t.GlobDirs...) {
			if strings.HasPrefix(s, "dir_") || strings.HasPrefix(s, "gdir_") {
				d := p.sourceRel(t, s)
				if !seen[d] {
					seen[d] = true
					out = append(out, d)
				}
			}
		}
	}
	sort.Strings(out)
	return out
}

// genNoopEdit returns an edit of the classes C02 lists: none, touch, same-content rewrite,
// edits outside the closure of `label`, comment / whitespace / docstring edits.
func genNoopEdit(r *rand.Rand, p *projSpec, label string, serial int) *opSpec {
	inClosure := map[string]bool{}
	closurePkgs := map[string]bool{}
	closureMods := map[int]bool{}
	for _, t := range p.closure(label) {
		inClosure[t.label()] = true
		closurePkgs[t.Pkg] = true
	}
	// helper modules reachable from packages in the closure
	var markMod func(i int)
	markMod = func(i int) {
		if closureMods[i] {
			return
		}
		closureMods[i] = true
		for _, j := range p.Modules[i].Loads {
			markMod(j)
		}
	}
	for i := range p.Targets {
		if closurePkgs[p.Targets[i].Pkg] {
			for _, rf := range p.Targets[i].Refs {
				if rf.Kind == "libconst" || rf.Kind == "libfunc" {
					markMod(rf.Mod)
				}
			}
		}
	}
	var files []string
	for f := range p.Files {
		files = append(files, f)
	}
	sort.Strings(files)
	for try := 0; try < 10; try++ {
		if len(p.Exts) > 0 && r.IntN(8) == 0 {
			// the module cache disappears (it is a cache): everything is fetched again
			return &opSpec{Op: "wipe-module-cache"}
		}
		switch r.IntN(9) {
		case 0:
			return &opSpec{Op: "nop"}
		case 1:
			if len(files) > 0 {
				return &opSpec{Op: "touch", Path: files[r.IntN(len(files))], N: serial}
			}
		case 2:
			if len(files) > 0 {
				return &opSpec{Op: "rewrite-same", Path: files[r.IntN(len(files))]}
			}
		case 3:
			if dirs := p.sourceDirs(); len(dirs) > 0 {
				return &opSpec{Op: "rewrite-same", Path: dirs[r.IntN(len(dirs))]}
			}
		case 4:
			// a source file that no target of the closure uses
			used := map[string]bool{}
			for _, t := range p.closure(label) {
				for _, s := range t.Sources {
					rel := p.sourceRel(t, s)
					for _, f := range files {
						if f == rel || strings.HasPrefix(f, rel+"/") {
							used[f] = true
						}
					}
				}
			}
			var outside []string
			for _, f := range files {
				if !used[f] {
					outside = append(outside, f)
				}
			}
			if len(outside) > 0 {
				return &opSpec{Op: "edit-source", Path: outside[r.IntN(len(outside))], N: serial}
			}
		case 5:
			// any edit to the BUILD file of a package with nothing in the closure
			var pkgs []string
			for _, pk := range p.Packages {
				if !closurePkgs[pk.Path] {
					pkgs = append(pkgs, pk.Path)
				}
			}
			if len(pkgs) > 0 {
				pk := pkgs[r.IntN(len(pkgs))]
				switch r.IntN(3) {
				case 0:
					return &opSpec{Op: "extra-global", Label: pk}
				case 1:
					if g := p.pkg(pk).Globals; len(g) > 0 {
						return &opSpec{Op: "edit-item", Item: fmt.Sprintf("global|%s|%s", pk, g[r.IntN(len(g))].Name), N: 1}
					}
				case 2:
					return &opSpec{Op: "comment", Item: "pkg|" + pk}
				}
			}
		case 6:
			pk := p.Packages[r.IntN(len(p.Packages))]
			if r.IntN(2) == 0 {
				return &opSpec{Op: "comment", Item: "pkg|" + pk.Path}
			}
			return &opSpec{Op: "blank", Item: "pkg|" + pk.Path}
		case 7:
			t := p.Targets[r.IntN(len(p.Targets))]
			if r.IntN(2) == 0 {
				return &opSpec{Op: "doc", Label: t.label()}
			}
			return &opSpec{Op: "comment", Item: "target|" + t.label()}
		case 8:
			if len(p.Modules) > 0 {
				mi := r.IntN(len(p.Modules))
				if r.IntN(2) == 0 {
					return &opSpec{Op: "comment", Item: fmt.Sprintf("mod|%d", mi)}
				}
				return &opSpec{Op: "blank", Item: fmt.Sprintf("mod|%d", mi)}
			}
		}
	}
	return &opSpec{Op: "nop"}
}
