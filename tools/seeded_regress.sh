#!/bin/sh
# Re-runs every seeded change against the check of its property (quick tier) and prints one
# line per change. Uses $VERIF_REPO (default /repo); each patch is undone straight afterwards.
cd "$(dirname "$0")/.."
# usage: tools/seeded_regress.sh [<extended regular expression on the change id>]
for d in seeded/*/; do
  id=$(basename $d)
  [ -f "$d/meta.json" ] || continue
  if [ -n "$1" ] && ! printf "%s" "$id" | grep -Eq "$1"; then continue; fi
  if python3 -c "import json,sys;sys.exit(0 if json.load(open('$d/meta.json')).get('status') in ('retired','missed') else 1)"; then echo "$id skipped: retired or known miss (see meta.json)"; continue; fi
  prop=$(python3 -c "import json;m=json.load(open('$d/meta.json'));print(m.get('check',m['property']))")
  out=$(python3 tools/seedtest.py $d/patch.diff $prop 2>&1)
  echo "$id $(printf "%s" "$out" | python3 -c "
import json,sys
try:
    o=json.load(sys.stdin); c=o['checks'].get('$prop',{})
    print('suite_ok=%s exit=%s classes=%s'%(o.get('existing_suite_passes'),c.get('exit'),','.join(c.get('classes',[]))))
except Exception as e:
    print('ERROR',e)
")"
done
