#!/usr/bin/env python3
"""Take the output of one wave of seeding sub-agents (<dir>/<PROP>-out/{A,B}/{patch.diff,
seed_demo_*_test.go,NOTES.md}) into /verif/seeded/<PROP>-<wave><A|B>/, confirm each change
with tools/seedtest.py (compiles, suite passes, demo passes without / fails with the change)
and run the check of its property against it.

  tools/ingest_wave.py <dir> <wave tag, e.g. w8> "<what the wave asked for>" [PROP ...]
"""
import json
import os
import re
import shutil
import subprocess
import sys

VERIF = os.path.dirname(os.path.dirname(os.path.abspath(__file__)))
PKGDIR = {"dawn": ".", "runner": "runner", "mvs": "internal/mvs", "pickle": "pickle", "project": "internal/project",
          "label": "label", "diff": "diff", "util": "util", "vcs": "internal/vcs", "main": "cmd/dawn"}


def main():
    src, wave, asked = sys.argv[1], sys.argv[2], sys.argv[3]
    only = sys.argv[4:]
    head = subprocess.check_output(["git", "-C", "/repo", "rev-parse", "--short", "HEAD"], text=True).strip()
    for d in sorted(os.listdir(src)):
        m = re.match(r"(C\d\d)-out$", d)
        if not m or (only and m.group(1) not in only):
            continue
        prop = m.group(1)
        for ab in ("A", "B"):
            sd = os.path.join(src, d, ab)
            patch = os.path.join(sd, "patch.diff")
            demos = [f for f in os.listdir(sd)] if os.path.isdir(sd) else []
            demos = [f for f in demos if f.endswith("_test.go")]
            sid = "%s-%s%s" % (prop, wave, ab)
            dst = os.path.join(VERIF, "seeded", sid)
            if not os.path.exists(patch) or not demos:
                print(sid, "incomplete: no patch or demonstration")
                continue
            if os.path.exists(os.path.join(dst, "meta.json")):
                print(sid, "already ingested")
                continue
            os.makedirs(dst, exist_ok=True)
            for f in os.listdir(sd):
                if os.path.isfile(os.path.join(sd, f)):
                    shutil.copy(os.path.join(sd, f), os.path.join(dst, f))
            demo = demos[0]
            pk = re.search(r"^package (\w+)", open(os.path.join(sd, demo)).read(), re.M).group(1)
            pkgdir = PKGDIR.get(pk.replace("_test", ""), ".")
            cmd = [sys.executable, os.path.join(VERIF, "tools", "seedtest.py"), os.path.join(dst, "patch.diff"), prop, "--demo", os.path.join(dst, demo), pkgdir]
            r = subprocess.run(cmd, capture_output=True, text=True)
            try:
                out = json.loads(r.stdout)
            except Exception:
                out = {"error": (r.stdout + r.stderr)[-600:], "checks": {}}
            chk = out.get("checks", {}).get(prop, {})
            status = "caught" if chk.get("exit") == 1 else ("undecided" if chk.get("exit") == 2 else "missed")
            if "error" in out:
                status = "not-applied"
            notes = ""
            np = os.path.join(dst, "NOTES.md")
            if os.path.exists(np):
                notes = open(np).read()
            meta = {
                "id": sid, "property": prop, "breaks": prop,
                "needs_to_manifest": "see NOTES.md",
                "source": "independent sub-agent (wave %s): given only the text of the property and a scratch worktree of /repo at %s; %s" % (wave[1:], head, asked),
                "confirmed": {k: out.get(k) for k in ("demo_passes_without_change", "demo_fails_with_change", "compiles", "existing_suite_passes")},
                "ran": "tools/seedtest.py seeded/%s/patch.diff %s --demo seeded/%s/%s %s" % (sid, prop, sid, demo, pkgdir),
                "first_result": {"exit": chk.get("exit"), "classes": sorted(set(chk.get("classes", []))), "first_msg": chk.get("first_msg", ""), "undecided": chk.get("undecided", [])},
                "status": status,
            }
            if "error" in out:
                meta["error"] = out["error"]
            if out.get("applied_with_3way"):
                meta["applied_with_3way"] = True
            json.dump(meta, open(os.path.join(dst, "meta.json"), "w"), indent=1)
            print(sid, status, meta["confirmed"], meta["first_result"]["classes"], flush=True)


if __name__ == "__main__":
    main()
