// simgen instruments pgavlin/dawn for deterministic simulation without touching /repo:
// it writes rewritten copies of the non-test Go files of the instrumented packages to a
// work directory plus an overlay.json for `go build -overlay`, an instrumented copy of
// github.com/pgavlin/mvs (used through a `replace`), and an alternative go.mod/go.sum.
//
// Rewrites (type-directed): selectors of sync, sync/atomic, os, path/filepath, runtime,
// math/rand, time by table → verif.local/sim/*; `go f(x)` → simrt.Go; `range <map>` →
// range simrt.RangeMap(<map>).
package main

import (
	"bytes"
	"encoding/json"
	"flag"
	"fmt"
	"go/ast"
	"go/format"
	"go/token"
	"go/types"
	"os"
	"path/filepath"
	"sort"
	"strings"

	"golang.org/x/tools/go/ast/astutil"
	"golang.org/x/tools/go/packages"
)

const simMod = "verif.local/sim"

var table = map[string]struct {
	pkg   string
	names map[string]bool // nil = every name simPkgNames lists
}{
	"sync":          {"simsync", set("Mutex RWMutex Cond NewCond WaitGroup Once OnceFunc OnceValue OnceValues Map Locker Pool")},
	"sync/atomic":   {"simatomic", set("Pointer Bool Value Int32 Int64 Uint32 Uint64 Uintptr LoadPointer StorePointer SwapPointer CompareAndSwapPointer " + atomicFuncs())},
	"os":            {"simos", set("Open OpenFile Create CreateTemp MkdirTemp Mkdir MkdirAll Rename Remove RemoveAll ReadFile WriteFile ReadDir Stat Lstat Truncate Chmod Chtimes Link Symlink File")},
	"path/filepath": {"simos", set("WalkDir Walk Glob")},
	"runtime":       {"simrt", set("NumCPU GOMAXPROCS Gosched")},
	"math/rand":     {"simrand", set("Intn Int63n Int31n Int Int63 Int31 Uint32 Float64 Float32 Perm Shuffle Seed")},
	"math/rand/v2":  {"simrand", set("IntN Int Uint32 Float64 Float32 Perm Shuffle")},
	"time":          {"simtime", set("Now Since Until Sleep After AfterFunc NewTimer Timer NewTicker Ticker Tick")},
}

func atomicFuncs() string {
	var out []string
	for _, t := range []string{"Int32", "Int64", "Uint32", "Uint64", "Uintptr"} {
		for _, op := range []string{"Load", "Store", "Swap", "Add", "And", "Or", "CompareAndSwap"} {
			out = append(out, op+t)
		}
	}
	return strings.Join(out, " ")
}

func set(s string) map[string]bool {
	m := map[string]bool{}
	for _, f := range strings.Fields(s) {
		m[f] = true
	}
	return m
}

type report struct {
	Files          int            `json:"files"`
	Selectors      map[string]int `json:"selectors_rewritten"`
	GoStmts        int            `json:"go_statements_rewritten"`
	MapRanges      int            `json:"map_ranges_rewritten"`
	PointerKeyMaps []string       `json:"map_ranges_with_unordered_keys"`
	ChannelOps     int            `json:"channel_operations_rewritten"`
	Passthrough    map[string]int `json:"selectors_left_real"`
}

func main() {
	repo := flag.String("repo", "/repo", "repository root")
	out := flag.String("out", "", "work directory")
	simDir := flag.String("sim", "/verif/sim", "sim runtime module directory")
	harness := flag.String("harness", "/verif/harness", "harness directory (sub-directories runner, dawn, mvs)")
	flag.Parse()
	if *out == "" {
		fatal("missing -out")
	}

	dawnPkgs := []string{
		"github.com/pgavlin/dawn",
		"github.com/pgavlin/dawn/runner",
		"github.com/pgavlin/dawn/internal/mvs",
		"github.com/pgavlin/dawn/internal/project",
		"github.com/pgavlin/dawn/util",
		"github.com/pgavlin/dawn/pickle",
		"github.com/pgavlin/dawn/diff",
		"github.com/pgavlin/dawn/label",
	}
	mvsPkgs := []string{"github.com/pgavlin/mvs", "github.com/pgavlin/mvs/internal/par"}

	cfg := &packages.Config{
		Mode: packages.NeedName | packages.NeedFiles | packages.NeedCompiledGoFiles | packages.NeedSyntax |
			packages.NeedTypes | packages.NeedTypesInfo | packages.NeedImports | packages.NeedModule,
		Dir: *repo,
		Env: append(os.Environ(), "GOFLAGS=-mod=mod", "GOPROXY=off", "GOSUMDB=off", "GOTOOLCHAIN=local"),
	}
	pkgs, err := packages.Load(cfg, append(append([]string{}, dawnPkgs...), mvsPkgs...)...)
	if err != nil {
		fatal("load: %v", err)
	}
	bad := false
	for _, p := range pkgs {
		for _, e := range p.Errors {
			fmt.Fprintf(os.Stderr, "simgen: %s: %v\n", p.PkgPath, e)
			bad = true
		}
	}
	if bad {
		os.Exit(2)
	}

	rep := &report{Selectors: map[string]int{}, Passthrough: map[string]int{}}
	overlay := map[string]string{}
	var mvsModDir string

	for _, p := range pkgs {
		isMVS := strings.HasPrefix(p.PkgPath, "github.com/pgavlin/mvs")
		if isMVS && p.Module != nil {
			mvsModDir = p.Module.Dir
		}
		for i, f := range p.Syntax {
			orig := p.CompiledGoFiles[i]
			if strings.HasSuffix(orig, "_test.go") {
				continue
			}
			src := rewrite(p, f, rep)
			var dst string
			if isMVS {
				rel, _ := filepath.Rel(p.Module.Dir, orig)
				dst = filepath.Join(*out, "mvs", rel)
			} else {
				rel, _ := filepath.Rel(*repo, orig)
				dst = filepath.Join(*out, "overlay", rel)
				overlay[orig] = dst
			}
			must(os.MkdirAll(filepath.Dir(dst), 0755))
			must(os.WriteFile(dst, src, 0644))
			rep.Files++
		}
	}

	// pgavlin/mvs: go.mod and anything not rewritten
	if mvsModDir == "" {
		fatal("github.com/pgavlin/mvs not found")
	}
	must(copyFile(filepath.Join(mvsModDir, "go.mod"), filepath.Join(*out, "mvs", "go.mod")))

	// harness files overlaid into dawn's packages
	for sub, pkgDir := range map[string]string{"runner": "runner", "dawn": "", "mvs": "internal/mvs"} {
		ents, err := os.ReadDir(filepath.Join(*harness, sub))
		if err != nil {
			continue
		}
		for _, e := range ents {
			if !strings.HasSuffix(e.Name(), ".go") {
				continue
			}
			name := "zz_verif_" + strings.TrimSuffix(strings.TrimSuffix(e.Name(), ".go"), "_test") + "_test.go"
			if strings.HasPrefix(e.Name(), "hook") {
				// a seam compiled into the package itself (only under the overlay)
				name = "zz_verif_" + e.Name()
			}
			overlay[filepath.Join(*repo, pkgDir, name)] = filepath.Join(*harness, sub, e.Name())
		}
	}

	ov, _ := json.MarshalIndent(map[string]any{"Replace": overlay}, "", " ")
	must(os.WriteFile(filepath.Join(*out, "overlay.json"), ov, 0644))

	// alternative go.mod / go.sum
	gomod, err := os.ReadFile(filepath.Join(*repo, "go.mod"))
	must(err)
	extra := fmt.Sprintf("\nrequire %s v0.0.0\nrequire github.com/anishathalye/porcupine v1.3.0\nreplace %s => %s\nreplace github.com/pgavlin/mvs => %s\n",
		simMod, simMod, *simDir, filepath.Join(*out, "mvs"))
	must(os.WriteFile(filepath.Join(*out, "go.mod"), append(gomod, extra...), 0644))
	must(copyFile(filepath.Join(*repo, "go.sum"), filepath.Join(*out, "go.sum")))

	sort.Strings(rep.PointerKeyMaps)
	rj, _ := json.MarshalIndent(rep, "", " ")
	must(os.WriteFile(filepath.Join(*out, "simgen-report.json"), rj, 0644))
	fmt.Printf("simgen: %d files, %d go statements, %d map ranges, selectors %v\n", rep.Files, rep.GoStmts, rep.MapRanges, rep.Selectors)
}

func simchanCall(fn string, args ...ast.Expr) *ast.CallExpr {
	return &ast.CallExpr{Fun: &ast.SelectorExpr{X: ast.NewIdent("simchan"), Sel: ast.NewIdent(fn)}, Args: args}
}

func copyFile(src, dst string) error {
	b, err := os.ReadFile(src)
	if err != nil {
		return err
	}
	if err := os.MkdirAll(filepath.Dir(dst), 0755); err != nil {
		return err
	}
	return os.WriteFile(dst, b, 0644)
}

func must(err error) {
	if err != nil {
		fatal("%v", err)
	}
}

func fatal(f string, a ...any) {
	fmt.Fprintf(os.Stderr, "simgen: "+f+"\n", a...)
	os.Exit(2)
}

func rewrite(p *packages.Package, f *ast.File, rep *report) []byte {
	info := p.TypesInfo
	fset := p.Fset
	need := map[string]bool{}
	pos := func(n ast.Node) string {
		ps := fset.Position(n.Pos())
		return fmt.Sprintf("%s:%d", filepath.Base(ps.Filename), ps.Line)
	}
	tmp := 0
	inSelect := map[ast.Node]bool{}

	astutil.Apply(f, func(c *astutil.Cursor) bool {
		switch n := c.Node().(type) {
		case *ast.SelectorExpr:
			id, ok := n.X.(*ast.Ident)
			if !ok {
				return true
			}
			pn, ok := info.Uses[id].(*types.PkgName)
			if !ok {
				return true
			}
			path := pn.Imported().Path()
			if strings.HasSuffix(path, "/internal/vcs") && n.Sel.Name == "DialGitRepository" && strings.HasSuffix(p.PkgPath, "/internal/mvs") {
				// the one place dawn reaches the network: the default dialer. The harness file
				// hook.go (overlaid as a non-test file of internal/mvs) defines verifDialGit,
				// which dials a simulated repository when a harness has installed one and the
				// real one otherwise.
				c.Replace(ast.NewIdent("verifDialGit"))
				rep.Selectors["internal/vcs.DialGitRepository"]++
				return false
			}
			if t, ok := table[path]; ok {
				if t.names[n.Sel.Name] {
					n.X = ast.NewIdent(t.pkg)
					need[t.pkg] = true
					rep.Selectors[path]++
				} else {
					rep.Passthrough[path+"."+n.Sel.Name]++
				}
			}
		case *ast.SelectStmt:
			// the communications of a select are rewritten with the select itself
			for _, st := range n.Body.List {
				cc := st.(*ast.CommClause)
				switch cm := cc.Comm.(type) {
				case *ast.SendStmt:
					inSelect[cm] = true
				case *ast.ExprStmt:
					inSelect[ast.Unparen(cm.X)] = true
				case *ast.AssignStmt:
					inSelect[ast.Unparen(cm.Rhs[0])] = true
				}
			}
		}
		return true
	}, func(c *astutil.Cursor) bool {
		switch n := c.Node().(type) {
		case *ast.SendStmt:
			if inSelect[n] {
				return true
			}
			c.Replace(&ast.ExprStmt{X: simchanCall("Send", n.Chan, n.Value)})
			need["simchan"] = true
			rep.ChannelOps++
		case *ast.UnaryExpr:
			if n.Op != token.ARROW || inSelect[n] {
				return true
			}
			fn := "Recv"
			switch par := c.Parent().(type) {
			case *ast.AssignStmt:
				if len(par.Lhs) == 2 && len(par.Rhs) == 1 {
					fn = "Recv2"
				}
			case *ast.ValueSpec:
				if len(par.Names) == 2 && len(par.Values) == 1 {
					fn = "Recv2"
				}
			}
			c.Replace(simchanCall(fn, n.X))
			need["simchan"] = true
			rep.ChannelOps++
		case *ast.CallExpr:
			if id, ok := n.Fun.(*ast.Ident); ok && id.Name == "close" && len(n.Args) == 1 {
				if _, ok := info.Uses[id].(*types.Builtin); ok {
					n.Fun = &ast.SelectorExpr{X: ast.NewIdent("simchan"), Sel: ast.NewIdent("Close")}
					need["simchan"] = true
					rep.ChannelOps++
				}
			}
		case *ast.SelectStmt:
			need["simchan"] = true
			rep.ChannelOps++
			if len(n.Body.List) == 0 {
				c.Replace(&ast.ExprStmt{X: simchanCall("Select", ast.NewIdent("false"))})
				return true
			}
			hasDefault := "false"
			var args []ast.Expr
			var clauses []ast.Stmt
			for _, st := range n.Body.List {
				cc := st.(*ast.CommClause)
				body := []ast.Stmt{&ast.AssignStmt{Lhs: []ast.Expr{ast.NewIdent("_"), ast.NewIdent("_")}, Tok: token.ASSIGN, Rhs: []ast.Expr{ast.NewIdent("simR"), ast.NewIdent("simOK")}}}
				if cc.Comm == nil {
					hasDefault = "true"
					clauses = append(clauses, &ast.CaseClause{Body: append(body, cc.Body...)})
					continue
				}
				idx := &ast.BasicLit{Kind: token.INT, Value: fmt.Sprint(len(args))}
				switch cm := cc.Comm.(type) {
				case *ast.SendStmt:
					args = append(args, simchanCall("S", cm.Chan, cm.Value))
				case *ast.ExprStmt:
					args = append(args, simchanCall("R", ast.Unparen(cm.X).(*ast.UnaryExpr).X))
				case *ast.AssignStmt:
					ch := ast.Unparen(cm.Rhs[0]).(*ast.UnaryExpr).X
					args = append(args, simchanCall("R", ch))
					rhs := []ast.Expr{simchanCall("Got", ch, ast.NewIdent("simR"))}
					if len(cm.Lhs) == 2 {
						rhs = append(rhs, ast.NewIdent("simOK"))
					}
					body = append(body, &ast.AssignStmt{Lhs: cm.Lhs, Tok: cm.Tok, Rhs: rhs})
				}
				clauses = append(clauses, &ast.CaseClause{List: []ast.Expr{idx}, Body: append(body, cc.Body...)})
			}
			c.Replace(&ast.SwitchStmt{
				Init: &ast.AssignStmt{
					Lhs: []ast.Expr{ast.NewIdent("simI"), ast.NewIdent("simR"), ast.NewIdent("simOK")},
					Tok: token.DEFINE,
					Rhs: []ast.Expr{simchanCall("Select", append([]ast.Expr{ast.NewIdent(hasDefault)}, args...)...)},
				},
				Tag:  ast.NewIdent("simI"),
				Body: &ast.BlockStmt{List: clauses},
			})
		case *ast.RangeStmt:
			t := info.TypeOf(n.X)
			if t == nil {
				return true
			}
			switch u := t.Underlying().(type) {
			case *types.Map:
				switch u.Key().Underlying().(type) {
				case *types.Pointer, *types.Interface, *types.Chan:
					rep.PointerKeyMaps = append(rep.PointerKeyMaps, pos(n))
				}
				n.X = &ast.CallExpr{
					Fun:  &ast.SelectorExpr{X: ast.NewIdent("simrt"), Sel: ast.NewIdent("RangeMap")},
					Args: []ast.Expr{n.X},
				}
				need["simrt"] = true
				rep.MapRanges++
			case *types.Chan:
				n.X = simchanCall("Range", n.X)
				need["simchan"] = true
				rep.ChannelOps++
			}
		case *ast.GoStmt:
			call := n.Call
			var stmts []ast.Stmt
			bind := func(e ast.Expr) ast.Expr {
				if tv, ok := info.Types[e]; ok && (tv.Value != nil || tv.IsNil()) {
					return e
				}
				if _, ok := e.(*ast.FuncLit); ok {
					return e
				}
				tmp++
				name := fmt.Sprintf("simgo%d", tmp)
				stmts = append(stmts, &ast.AssignStmt{Lhs: []ast.Expr{ast.NewIdent(name)}, Tok: token.DEFINE, Rhs: []ast.Expr{e}})
				return ast.NewIdent(name)
			}
			fun := bind(call.Fun)
			args := make([]ast.Expr, len(call.Args))
			for i, a := range call.Args {
				args[i] = bind(a)
			}
			inner := &ast.CallExpr{Fun: fun, Args: args, Ellipsis: call.Ellipsis}
			if call.Ellipsis.IsValid() {
				inner.Ellipsis = 1
			}
			var arg ast.Expr
			if fl, ok := fun.(*ast.FuncLit); ok && len(args) == 0 && fl.Type.Results == nil {
				arg = fl
			} else {
				arg = &ast.FuncLit{
					Type: &ast.FuncType{Params: &ast.FieldList{}},
					Body: &ast.BlockStmt{List: []ast.Stmt{&ast.ExprStmt{X: inner}}},
				}
			}
			stmts = append(stmts, &ast.ExprStmt{X: &ast.CallExpr{
				Fun:  &ast.SelectorExpr{X: ast.NewIdent("simrt"), Sel: ast.NewIdent("Go")},
				Args: []ast.Expr{arg},
			}})
			need["simrt"] = true
			rep.GoStmts++
			if len(stmts) == 1 {
				c.Replace(stmts[0])
			} else {
				c.Replace(&ast.BlockStmt{List: stmts})
			}
		}
		return true
	})

	names := make([]string, 0, len(need))
	for n := range need {
		names = append(names, n)
	}
	sort.Strings(names)
	for _, n := range names {
		astutil.AddImport(fset, f, simMod+"/"+n)
	}
	// drop imports that are no longer used
	for _, imp := range append([]*ast.ImportSpec{}, f.Imports...) {
		path := strings.Trim(imp.Path.Value, `"`)
		if _, ok := table[path]; !ok {
			continue
		}
		if imp.Name != nil && (imp.Name.Name == "_" || imp.Name.Name == ".") {
			continue
		}
		if !astutil.UsesImport(f, path) {
			name := ""
			if imp.Name != nil {
				name = imp.Name.Name
			}
			astutil.DeleteNamedImport(fset, f, name, path)
		}
	}

	var buf bytes.Buffer
	if err := format.Node(&buf, fset, f); err != nil {
		fatal("format %s: %v", fset.Position(f.Pos()).Filename, err)
	}
	return buf.Bytes()
}
