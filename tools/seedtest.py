#!/usr/bin/env python3
"""Run checks against a seeded change: apply the patch to /repo, confirm it compiles and the
existing suite passes, run the named checks, and undo the patch straight afterwards.

  tools/seedtest.py <patch> <PROP> [<PROP> ...] [--tier quick|thorough] [--demo <test file> <pkg dir>]
"""
import json
import os
import re
import shutil
import subprocess
import sys

VERIF = os.path.dirname(os.path.dirname(os.path.abspath(__file__)))
REPO = os.environ.get("VERIF_REPO", "/repo")
ENV = dict(os.environ, GOFLAGS="-mod=mod", GOPROXY="off", GOSUMDB="off", GOTOOLCHAIN="local", VERIF_EVIDENCE_DIR="/tmp/verif-seedtest-evidence")


def sh(cmd, cwd=None, timeout=3600):
    return subprocess.run(cmd, cwd=cwd, env=ENV, capture_output=True, text=True, timeout=timeout)


def main():
    a = sys.argv[1:]
    patch = os.path.abspath(a[0])
    props, tier, demo = [], "quick", None
    i = 1
    while i < len(a):
        if a[i] == "--tier":
            tier = a[i + 1]; i += 2
        elif a[i] == "--demo":
            demo = (os.path.abspath(a[i + 1]), a[i + 2]); i += 3
        else:
            props.append(a[i]); i += 1
    st = sh(["git", "-C", REPO, "status", "--porcelain"])
    if st.stdout.strip():
        print("refusing: /repo is not clean"); return 2
    out = {"patch": patch, "checks": {}}
    demo_dst = None
    try:
        if demo:
            # the demonstration passes on the unchanged tree
            demo_dst = os.path.join(REPO, demo[1], os.path.basename(demo[0]))
            shutil.copy(demo[0], demo_dst)
            r = sh(["go", "test", "-vet=off", "-count=1", "-run", "Seed|Demo|seed|demo", "./" + demo[1]], cwd=REPO)
            out["demo_passes_without_change"] = r.returncode == 0
        r = sh(["git", "-C", REPO, "apply", patch])
        if r.returncode != 0:
            r = sh(["git", "-C", REPO, "apply", "--3way", patch])
            sh(["git", "-C", REPO, "reset", "-q"])
            if r.returncode != 0:
                print(json.dumps({"patch": patch, "error": "patch does not apply: " + r.stderr[-400:], "checks": {}})); return 2
            out["applied_with_3way"] = True
        r = sh(["go", "build", "./..."], cwd=REPO)
        out["compiles"] = r.returncode == 0
        if demo:
            r = sh(["go", "test", "-vet=off", "-count=1", "-run", "Seed|Demo|seed|demo", "./" + demo[1]], cwd=REPO)
            out["demo_fails_with_change"] = r.returncode != 0
            os.remove(demo_dst); demo_dst = None
        r = sh(["go", "test", "-vet=off", "-count=1", "./..."], cwd=REPO)
        out["existing_suite_passes"] = r.returncode == 0
        if not out["existing_suite_passes"]:
            out["suite_output"] = (r.stdout + r.stderr)[-1500:]
        for p in props:
            r = sh([os.path.join(VERIF, "check"), p, "--tier", tier], cwd=VERIF)
            classes = re.findall(r"^violation class=([^:]+):", r.stdout, re.M)
            msgs = re.findall(r"^violation class=[^:]+: (.*)$", r.stdout, re.M)
            out["checks"][p] = {"exit": r.returncode, "classes": classes, "first_msg": (msgs[0][:300] if msgs else ""),
                                "undecided": re.findall(r"UNDECIDED: (.*)", r.stderr)[:2]}
    finally:
        if demo_dst and os.path.exists(demo_dst):
            os.remove(demo_dst)
        sh(["git", "-C", REPO, "checkout", "--", "."])
        sh(["git", "-C", REPO, "clean", "-fdq"])
    print(json.dumps(out, indent=1))
    return 0


if __name__ == "__main__":
    sys.exit(main())
