#!/usr/bin/env python3
"""Regenerates /verif/MANIFEST.json and /verif/rules.json from the tables below."""
import json
import os

VERIF = os.path.dirname(os.path.dirname(os.path.abspath(__file__)))

REAL_E1 = "real: runner/runner.go (Run, engine, gate, cycle check) instrumented by overlay; stub: targets (synthetic graph, bodies are yields); simulated: goroutine scheduling, sync, sync/atomic, sync.Map, runtime.NumCPU"
REAL_E2 = ("real: dawn root package (Load, loadPackage, module, function, sourceFile, target, project_index, GC, lineWriter), runner, pickle, diff, label, "
           "internal/project, internal/mvs (BuildList, Resolver, FetchProject: temp directory + rename into the module cache) + pgavlin/mvs par.Work workers, the Starlark interpreter, "
           "encoding/json, the kernel file system on tmpfs; "
           "stub: target bodies (harness builtin sim_body), $HOME, the network (simulated vcs.Repository objects behind the dial seam, with dial / list / fetch failures); simulated: goroutine scheduling, sync, atomics, map iteration order, math/rand, temp names, "
           "process death, file-system errors and torn writes")
REAL_E3 = "real: cache.go (Cache(), once and its generated Starlark wrapper), Starlark call machinery; stub: callables (harness builtins); simulated: goroutine scheduling, sync.RWMutex"
REAL_E4 = ("real: internal/mvs (BuildList, Get, UpgradeAll, Tidy, Reqs, Resolver incl. FetchProject temp-dir+rename, query.go), internal/project config read/write, "
           "pgavlin/mvs (BuildList, Req, ReqList, Upgrade, Downgrade, UpgradeAll) with its 10 par.Work workers; stub: network and git (simulated vcs.Repository behind dawn's Dialer); "
           "simulated: goroutine scheduling, sync, sync.Map, map order, math/rand, temp names, dial/list/fetch faults, file-system errors")

CHECKS = {
    "C04": dict(engine="runner", category="exploration",
                text="Seeded deterministic simulation of the real runner over generated dependency graphs (<=12 labels; chains, trees, diamonds, DAGs, back-edges, self-loops, overlapping cycles, failing/unknown targets), limits 1..16, four scheduler strategies. Oracle at every yield: <=1 LoadTarget and <=1 Evaluate per label; on return of every dependency request every requested label has finished and the handed error/target are the actual ones; Run returns the root's outcome. 6 of the 16 workers run the project-level form instead: real multi-package projects (diamonds, cycles, unknown and failing targets) loaded and built by the real Project/runner, oracle on the execution log (each body at most once, after the end of every dependency that ran, never after a failed dependency; build result = requested target's result). Sampling, not proof.",
                note="Interleavings are explored at sync/atomic/sync.Map/go points (sequentially consistent between them); plain-memory races between two such points are not explored. Targets are synthetic.",
                technique="deterministic simulation: seeded scheduler over instrumented sync/atomic, invariant monitors at every yield; plus the project-level form on real projects (E2)",
                design="§4 C04, §12.2", real=REAL_E1 + " || project-level form: " + REAL_E2, also="dawn",
                rule="seeded graph x scheduler strategy x schedule tape; one case = one simulated runner.Run; distinct_nontrivial = distinct (scenario hash, interleaving trace hash) with >=1 scheduling choice among >=2 runnable goroutines",
                assumptions=["scheduler granularity = synchronisation points", "synthetic targets issue one (or two) dependency requests then yield 0-3 times"]),
    "C05": dict(engine="runner", category="exploration",
                text="Same engine as C04. Oracle: the simulated Run returns within the step budget under every sampled schedule and limit (simulator-detected deadlock = all goroutines blocked; budget exhaustion under a fair scheduler = livelock); reachable cycle <=> build fails and some target is handed CyclicDependencyError; acyclic => never. 6 of the 16 workers run the project-level form: real projects whose target graphs contain cycles/unknown dependencies, built under limits 1..16; a simulator-detected deadlock or budget exhaustion of Load+Run is a violation, and the cycle oracle is evaluated on TargetFailed events. Sampling, not proof.",
                note="Fairness: a goroutine chosen 128 times in a row yields to the longest-waiting runnable one, so spin-waits in cycle detection are not reported unless they exhaust 100000 steps.",
                technique="deterministic simulation: seeded scheduler, deadlock/livelock detection, cycle oracle from an independent graph model; plus the project-level form on real projects (E2)",
                design="§4 C05, §12.2", real=REAL_E1 + " || project-level form: " + REAL_E2, also="dawn",
                rule="as C04; probes count cyclic graphs and handed cycle errors",
                assumptions=["termination is judged under fair schedules (fairness bound 128)", "step budget 100000 per build (typical builds use 30-300 steps)"]),
    "C09": dict(engine="runner", category="exploration",
                text="Same engine as C04 with the simulator's NumCPU as the limit L in {1,2,3,4,8,16}. Invariants at every yield: executing <= L; 0 <= free slots <= L; executing <= L - free; at quiescence free == L; acyclic graphs complete at every L (esp. 1). The gate's free-slot count is read by reflection. 6 of the 16 workers run the project-level form: real projects built by the real Project/runner with NumCPU in {1,2,3,4,8,16}; the number of target bodies between their start and end never exceeds the limit, and acyclic projects finish at every limit.",
                note="If a changed tree has no runner.gate.capacity field the slot-count invariants are skipped (counted in evidence as gate_not_readable) and only the behavioural ones remain.",
                technique="deterministic simulation: seeded scheduler, conservation invariants at every yield; plus the project-level form on real projects (E2)",
                design="§4 C09, §12.2", real=REAL_E1 + " || project-level form: " + REAL_E2, also="dawn",
                rule="as C04; probes count runs in which the gate was full / contended at limit 1",
                assumptions=["'executing' is counted by the harness targets: inside LoadTarget/Evaluate and outside EvaluateTargets"]),
}

CHECKS.update({
    "C01": dict(engine="dawn", category="exploration",
                text="Seeded deterministic simulation of real projects on a real (tmpfs) disk: generated multi-package projects (helper modules, closures, defaults, globals, flags, generated sources) x histories of 3-15 operations (semantic edits of every item kind, no-op edits, dependency-edge edits, deletions and renames inside source directories, files added to / deleted from glob()-matched source sets, partial builds of sub-targets, failing builds, builds interrupted at a seeded step, builds under random I/O errors, dry runs, GC, index loads), every build = Load + Run in a fresh simulated process, or watch-style Reload of the previous Project, or REPL-style run on the previous loaded Project (only after source-file edits). Oracle after every build that reports success: every function target in the closure last executed successfully with exactly its current inputs (independent reference model over the project spec), after the last successful execution of each dependency, with its outputs present; plus a byte comparison with a real from-scratch build of the same tree.",
                note="The reference model (harness/dawn/gen.go inputItems, ~150 lines) is trusted; target bodies are a harness builtin standing for external commands. Sampling, not proof.",
                technique="deterministic simulation: seeded histories and schedules against a reference model of target inputs; from-scratch differential build",
                design="§4 C01", real=REAL_E2,
                rule="one case = one (project, history); simulated runs = processes (Load+Run); distinct_nontrivial = distinct (project hash, interleaving hash) of processes with >=1 scheduling choice",
                assumptions=["bodies are deterministic functions of (label, received values, declared sources, dependency outputs named in their code)", "removing a dependency edge or adding unrelated globals is a don't-care edit"]),
    "C02": dict(engine="dawn", category="exploration",
                text="Same engine as C01. A label is built, then only edits of the classes the property lists are applied (nothing, touch, same-content rewrite of files and re-creation of directories in another order, edits to sources and to BUILD files outside the closure, comment / whitespace / docstring edits anywhere), then the project is loaded in a fresh simulated process under different schedule and map-order tapes and built again: no body may start (targets marked always and their dependents excepted).",
                note="An edit keeps the premise only if the reference model says no closure target's inputs changed and it is one of the listed classes; anything else ends the watched window.",
                technique="deterministic simulation: metamorphic no-op edits + seeded load interleavings and map orders; execution log must stay empty",
                design="§4 C02", real=REAL_E2,
                rule="as C01; counters.noop_rebuilds_checked = rebuilds on which the oracle was evaluated",
                assumptions=["inserting an unrelated global into a BUILD file of the closure is not a no-op (compiled global indices shift)"]),
    "C03": dict(engine="dawn", category="fault_enumeration",
                text="For each sampled (project, history prefix, schedule): the last build is run once uninterrupted while its persistent-effect boundaries are recorded (every simulated os create/write/close/rename/mkdir/remove, every body start/yield/write/end); then, replaying the same tapes from a snapshot of the tree, the simulated process is killed at EVERY boundary (and inside every write: torn), or every non-empty subset (<=15) of executing bodies fails, or EVERY I/O operation fails with ENOSPC/EIO/EACCES/EMFILE, or (compose) the recovery build is killed again, or (crash-revert) the last edit is undone after the kill, or (diskfull) every create/write fails from operation k on while bodies fail after writing their outputs; failed targets are repaired by partial builds first in half of the failure patterns; some interrupted builds are forced (--always). After each: Load with and without the index must succeed, the next fault-free build must succeed, satisfy the C01 oracle, re-execute every body that started but did not finish, and leave generated files byte-equal to the uninterrupted run.",
                note="Exhaustive over single fault points per sampled scenario (a stratified sample of boundaries above 160 in the quick tier), seeded over scenarios. Process crash, not power loss: completed system calls persist (dawn never fsyncs).",
                technique="deterministic simulation: crash-point / failure-subset / I-O-error enumeration with replayed schedules, recovery oracle",
                design="§4 C03", real=REAL_E2,
                rule="one case = one scenario with all its fault points; simulated runs count every faulted process and every recovery load/build; distinct_nontrivial = distinct (project, trace) hashes incl. the fault",
                assumptions=["crash = every goroutine of the simulated process stops at a yield point; only the disk survives"]),
    "C06": dict(engine="dawn", category="exploration",
                text="Load-only simulation of generated load graphs (1-5 packages, 0-6 helper modules; chains, diamonds, helpers shared by several packages that load others, self-loads, 2- and n-cycles, BUILD files loading each other), modules yield 0-3 times at top level so that loaders meet mid-load; one module in ten fails while loading (fail(), syntax error or undefined name) with other loaders waiting for it. Oracle: ModuleLoading <=1 per module, no deadlock or budget exhaustion, acyclic => Load succeeds with exactly the model's targets and flags (twice, under different tapes), cyclic => Load fails with an error mentioning the cyclic dependency.",
                note="Granularity: sync points and sim_yield calls; module.done's unlocked writes before taking the lock are executed in one order only.",
                technique="deterministic simulation: seeded interleavings of per-package loader goroutines, deadlock detection, graph model",
                design="§4 C06", real=REAL_E2,
                rule="one case = one load graph loaded twice; probes.cyclic_load_graph counts cyclic ones",
                assumptions=[]),
    "C08": dict(engine="dawn", category="exploration",
                text="Function zoo: recursion and mutual recursion (within a module and across loaded modules), closures, three-deep nested defs, lambdas, comprehensions, defaults of every value kind, *args/**kwargs, references to host/package/Cache()/os/sh/json and to other target objects, collections of 0..2500 elements at nested positions, shared and self-referential lists and dicts, every integer width boundary, int/float and int/bool pairs that compare equal, special floats, >255 memoized objects, a tuple with a prefix slice of itself, lists whose only varying elements sit at batch boundaries, two closures from one def, helpers defined below the target, functions held in struct attributes. Oracle: the worker process survives (a death is attributed to the journalled scenario and confirmed in a fresh process), load and build report no fingerprinting error, a second load under other tapes re-executes nothing, and for each referenced item in turn a semantic edit re-executes every referencing target.",
                note="A fatal runtime error (stack overflow) cannot be recovered in-process; the driver reports it as class worker-death.",
                technique="deterministic simulation: generated function shapes, crash attribution by journal, metamorphic reload/edit oracles",
                design="§4 C08", real=REAL_E2,
                rule="one case = one zoo project with 2 + (number of edits) builds of //:all",
                assumptions=[]),
    "C13": dict(engine="dawn", category="exploration",
                text="C01-style histories with dry runs inserted before real builds of the same label, dry runs over an unreadable source (self-referential symlink), and the REPL/watch pattern: dry run, optional Reload, then Run with nil options on the same loaded Project. Oracle: between the end of a dry run's load and the end of its run the whole tree (project files and .dawn) is byte-identical and no body starts; the set of targets it reports evaluating equals that of the following real build (when that fails: a subset relation apart from targets downstream of the failure); and the same history without the dry runs (same tapes) executes the same bodies in every real build and ends with identical generated files.",
                note="The tree hash covers names and contents, not timestamps.", technique="deterministic simulation: twin histories with and without dry runs, tree hashing, event comparison",
                design="§4 C13", real=REAL_E2, rule="one case = one history run twice (with and without its dry runs)", assumptions=[]),
    "C14": dict(engine="dawn", category="exploration",
                text="Histories with target additions/removals (a removed label is never re-created), failing builds, builds interrupted before the first collection (leaving temporaries), GC at arbitrary points through full or index-based loads (as `dawn gc` does) and sometimes followed by a run on the project the collection loaded, run twice with replayed tapes: with the collections, and with a plain load wherever the first history collects: every build must execute the same bodies and the final generated files must be identical. After each collection: nothing outside .dawn/build changed, temp/ is empty, every record of a live target or source is still there byte-identical, and no other record remains; the live set is obtained from a from-scratch load+build of every label of the same tree (the harness does not mirror dawn's record path scheme).",
                note="", technique="deterministic simulation: twin histories with and without GC, record-set comparison against a from-scratch state",
                design="§4 C14", real=REAL_E2, rule="one case = one history run twice; counters.collections_fully_checked", assumptions=[]),
    "C15": dict(engine="dawn", category="fault_enumeration",
                text="Stored bytes as the fault: (records) for a built project (optionally with a pending edit) every record file and index.json gets single-byte corruptions (xor 0x01, xor 0x80, 0x00, 0xff, case flip), truncations at every offset (strided above 120 bytes in the quick tier) and seeded multi-byte garbage, each followed by a simulated Load + Build: allowed outcomes are a reported load error, a reported build error, or success that satisfies the C01 oracle; (stream) every environment encoding found in the records is handed to the real decoder with dawn's unpickler through a faulting io.Reader - every byte value at every offset (a stride of offsets in the quick tier), EOF at every offset, 1- and 3-byte reads, seeded multi-byte garbage: the result must be (value, nil) with a value that can be traversed without meeting a nil, or (_, error); no panic; a decoder or loader that does not return within 15 / 25 s of real time is a violation (hang). Streams whose declared string lengths exceed the input are skipped and counted, as the property excludes them.",
                note="Exhaustive over single faults per sampled artefact in the stream mode and in the thorough tier; worker deaths are attributed by journal.",
                technique="deterministic simulation: stored-byte and stream fault enumeration against the real decoder and loader",
                design="§4 C15", real=REAL_E2, rule="one case = one project with all its corruptions; distinct_nontrivial counts distinct corrupted inputs / faulted processes", assumptions=[]),
    "C18": dict(engine="dawn", category="exploration",
                text="Histories of builds (failing bodies, dependency cycles, unknown dependencies, dry runs, always, two runs on one loaded project) with seeded chunking of body output written through one reused buffer (1-byte, mid-line, many lines per write, empty writes, CRLF, 5000-character lines), one injected I/O error in a fifth of the builds, and real builds right after dry runs (the dry run's evaluating set must equal the bodies that then run). Oracle per run: each label's events match UpToDate | Evaluating Print* (Succeeded|Failed) | Failed(missing or cyclic dependency); printed lines equal the text the body wrote split at newlines, once, in order; evaluating reported exactly when the body ran; exactly one run-done per run, after the requested target's last event, carrying the build's error.",
                note="When a build fails on a dependency cycle the runner returns while other targets are still finishing; only the requested target's events are required to be complete by run-done in that case. The CLI renderers (package main) are not exercised.",
                technique="deterministic simulation: event-stream automaton over recorded events, seeded write chunking",
                design="§4 C18", real=REAL_E2, rule="one case = one history; counters.runs_checked", assumptions=[]),
    "C20": dict(engine="dawn", category="exploration",
                text="2-6 simulated client goroutines issue 1-4 once(key, callable) calls over 1-3 keys on one cache; callables yield inside the write lock and return a unique value or fail. The recorded invoke/return history (stamped with the simulator's event sequence) is checked with porcupine against the sequential model (a map; once returns the stored value without calling, else calls; a failure stores nothing), plus: at most one successful invocation per key, all successful callers of a key receive the same value.",
                note="porcupine timeouts (30 s) are counted, never reported.", technique="deterministic simulation + linearizability checking (porcupine) against a sequential reference model",
                design="§4 C20", real=REAL_E3, rule="one case = one history of <=24 operations", assumptions=["nested once on the same cache from inside a callable self-deadlocks by construction and is not generated"]),
    "C10": dict(engine="mvs", category="exploration",
                text="Generated universes (1-3 repositories incl. sub-path projects and @v2/@v3 major-version paths, 2-8 projects x 1-5 versions incl. prereleases, requirement edges of any shape incl. diamonds and cycles, occasionally a dangling requirement) resolved by the real BuildList with pgavlin/mvs' 10 par.Work workers as simulated goroutines. Oracle: with no fault injected the result equals an independent reachability/semver-max model exactly (or fails iff a reachable requirement does not exist); repeated under permuted declaration order and names, other map-order and schedule tapes, cold / warm / partially pre-filled caches, repositories nested below another repository's project directory, and 2-3 resolver processes running concurrently on one cold cache (followed by a warm run on what they left). In the fault configuration (dial/list/get-revision/fetch errors from the repositories, ENOSPC/EIO/EACCES/EMFILE on the resolver's own file operations) the call may fail but never returns a different map, and once faults stop one more call succeeds.",
                note="The repositories are stubs: their checkout is written with the real os package (no injected I/O faults inside the stub). A poisoned cache left by a half-written checkout is outside the statement.",
                technique="deterministic simulation: seeded worker interleavings and map orders, injected VCS and I/O faults, metamorphic repeats against a reference model",
                design="§4 C10", real=REAL_E4, rule="one case = one universe with 2-4 resolutions; distinct by (universe, interleaving) hash", assumptions=[]),
    "C11": dict(engine="mvs", category="exploration",
                text="Histories of 1-5 tidy / upgrade-all / get(path@query) operations (queries: none, latest, upgrade, patch, exact, prefix, >, >=, <, <=, branch ref -> pseudo-version) on a root requirement set over the same universes, each applied by the real code in a fresh simulated process. Relational oracle on dawn's own outputs: tidy keeps the build list; upgrade-type gets and upgrade-all lower no project and leave the queried project at or above a lower-bounded/exact request; downgrade-type gets leave it at or below the request (or drop it); names of still-required projects are preserved and not reused; results resolve; every operation terminates; repeating it changes nothing.",
                note="Known finding K1 (get is not idempotent when MVS cannot land exactly on the resolved version) is listed in known_findings.json and reported as KNOWN-FINDING.",
                technique="deterministic simulation: seeded operation histories, relational oracles between successive build lists, termination by step budget",
                design="§4 C11", real=REAL_E4, rule="one case = one history; every operation costs 3 resolutions", assumptions=["branch queries (@main) resolve to pseudo-versions of the head revision; tag refs with slashes are not generated"]),
})

# what later rounds of seeded changes added to each generator / oracle (DESIGN.md 13)
MORE = {
    "C01": "Also: files moved across sub-directory boundaries of source directories, symbolic links inside source directories to files outside them, always= toggled, recursive helpers, and a dry run followed by Run with nil options on one loaded project.",
    "C02": "Also: a build over an unreadable source (which fails and must execute nothing) between the no-op rebuilds, and recursive helpers whose definitions move when comments are inserted. A quarter of the checked rebuilds are performed by another OS process (the test binary started again on the tree the parent left behind), so that state which depends on what the Go runtime randomises per process shows; a source may be listed twice under two spellings.",
    "C03": "Also: a mode in which an always=True target is interrupted and always= is then removed before the recovery build.",
    "C04": "Also: a cyclic-dependency error handed for a request none of whose targets depends on the requester is a wrong outcome; project level: Run again on the kept project, and 'the build returned an error although no body failed in it'.",
    "C06": "Also: watch-mode sequences on one loaded project - an edit breaks the load graph (failing module, self-load, two-module cycle), Reload must fail and name a cycle, the edit is undone, Reload must succeed and list the project's targets.",
    "C08": "Also: helpers with keyword-only parameters without default, functions / structs / tuples holding functions as dict keys and set elements, the built tree renamed to another directory and rebuilt (nothing may execute), and a default list the body appends to with two further runs on the kept project (the second must re-execute it); a value with heavy sharing (49 lists, 2^48 paths); a quarter of the stability checks run in another OS process; a build that does not come back within 30 s of real time is fingerprint-hang.",
    "C10": "Also: the root naming one path twice, one resolver resolving another root first, requirements at pseudo-versions, projects two directories below the repository root.",
    "C11": "Also: projects whose tags are all prereleases, several projects sharing a configured name.",
    "C13": "Also: real builds between dry runs that are interrupted (crash_at, or right after the first of the two record writes of a source file); the twin history performs a load wherever the first performs a dry run.",
    "C14": "Also: builds that reload the previous project (watch mode), helper modules that fail to load until repaired (with an index-based collection in between), collections on the reloaded or kept project of the previous operation.",
    "C15": "Also: one decoder handed a truncated stream, a short tail leaning on leftover state and the intact stream in turn.",
    "C18": "Also: a dry run followed by Run with nil options on one loaded project (both runs' events checked), and builds of labels that name no target.",
    "C20": "Also: a second cache whose callables may call once on the first, and clients that freeze a cache (repeatedly) between and during calls. Channel operations in changed code run under the simulator (simchan).",
}
for _p, _m in MORE.items():
    CHECKS[_p]["text"] += " " + _m

# wave 8 and the required-projects extension of the project engine
REQ = ("Projects with requirements (20-35% of the generated projects): dawn.toml names 1-4 other projects at versions (direct and transitive, also in cycles for C06; "
       "requirements of requirements that are not monotone in the requiring version, an alias that names another project in some versions, the next major version of a project "
       "as a project of its own, flags declared by required modules), "
       "their modules are fetched by dawn's own resolver from a simulated network into the module cache - by several loaders at once - and loaded from there.")
MORE8 = {
    "C01": REQ + " A requirement moved to another version is an edit (also under watch-mode Reload, also while the network is down during the reload); the module cache may disappear between builds. A flaky step on a loaded project: a target runs because its output was deleted or the run is forced, its body fails after writing half of the output, and the same loaded project runs again (compared with a from-scratch build).",
    "C02": REQ + " Wiping the module cache is a no-op edit. Forced builds (of the label, or of a target inside its closure) inside the watched window: nothing may run after them.",
    "C03": REQ + " Crash points therefore include every step of a fetch (temp directory, file-by-file checkout, rename into the cache).",
    "C06": REQ + " Modules of required projects count in the once-only, termination and cycle oracles; a required project's module may fail while others wait for it; flaky-disk loads now also hit the resolver.",
    "C08": REQ + " A requirement moved to another version must change the fingerprints of the targets that reach it. Values that hold the same text as str and as bytes.",
    "C11": "Also: the bare-major spelling path@v1 / path@v0 and non-canonical spellings (the canonical spelling must give the same requirements); for every modelled query kind the build list holds at least the version the query denotes; upgrade-all reaches the highest tag of each project's major; one long-lived resolver repeats the history and must arrive where fresh resolvers did.",
    "C15": "Also: an invocation that only loads the project between the corruption and the build (always for the record of an interrupted target, whose must-re-run field is covered with every mask); records damaged while a process holds the project loaded (reload + build); a record whose JSON content changed must not leave its target silently reported up to date.",
    "C18": "Also: a lone 'missing dependency' failure must belong to a target that itself names a missing label; a seventh of the builds go through the REPL's run(label, always=, dry_run=, callback=) builtin, and the event structs its channel-based adapter hands to the Starlark callback are checked against the same protocol.",
    "C20": "Also: in half of the runs releasing a lock is a yield point, so that TryLock / TryRLock can observe a lock held over a critical section without inner synchronisation.",
    "C04": "Also: in a third of the runs releasing a lock is a yield point of the simulator; a sixth of the runs start with an earlier build of the same process that failed on a cycle and left a target running; project level: watch sessions (a hazard, the failed build, the repair, Reload, build).",
    "C05": "Also: in a third of the runs releasing a lock is a yield point of the simulator; a sixth of the runs start with an earlier build of the same process that failed on a cycle and left a target running; project level: watch sessions (a hazard, the failed build, the repair, Reload, build).",
    "C09": "Also: in a third of the runs releasing a lock is a yield point of the simulator; a sixth of the runs start with an earlier build of the same process that failed on a cycle and left a target running; project level: watch sessions (a hazard, the failed build, the repair, Reload, build).",
}
for _p, _m in MORE8.items():
    CHECKS[_p]["text"] += " " + _m

NOT_APPLICABLE = {
    "C07": "pure function of its input (Decode(Encode(v)) ~ v): no schedule, clock, fault or history in the statement or the code path - not a simulation target (DESIGN.md §5); stream faults on the same codec are decided under C15, values flowing through it in builds under C01/C08",
    "C12": "label parsing/printing and path confinement are pure string functions: nothing for a simulator to schedule or fault (DESIGN.md §5)",
    "C16": "Diff(a,b) is a pure function of two values (DESIGN.md §5)",
    "C17": "glob-set matching is a pure function of (patterns, path) (DESIGN.md §5)",
    "C19": "config write/load round-trip is a pure function; the file is only a carrier (DESIGN.md §5)",
}

PENDING = {p: "claimed in DESIGN.md; its check is still being built in this session and is not registered until it runs clean on the unchanged tree" for p in "".split()}  # property -> reason while its engine is not built yet


def main():
    checks = []
    rules = {}
    for pid in sorted(CHECKS):
        c = CHECKS[pid]
        checks.append({
            "property_id": pid,
            "quick_cmd": "./check %s --tier quick" % pid,
            "thorough_cmd": "./check %s --tier thorough" % pid,
            "evidence_file": "/verif/evidence/%s.json" % pid,
            "replay_cmd_template": "./check %s --replay {path}" % pid,
            "engine": c["engine"],
            "level_claimed": {"category": c["category"], "text": c["text"], "design_ref": c["design"]},
            "level_note": c["note"],
            "technique": c["technique"],
        })
        rules[pid] = {"rule": c["rule"], "real_vs_stub": c["real"], "assumptions": c["assumptions"]}
    na = [{"property_id": k, "reason": v} for k, v in sorted({**NOT_APPLICABLE, **PENDING}.items())]
    engines = [
        {"name": "runner", "path": "harness/runner", "serves_properties": [p for p in sorted(CHECKS) if CHECKS[p]["engine"] == "runner"],
         "kind_free_text": "E1: real runner.Run over synthetic targets under the simulated scheduler"},
        {"name": "dawn", "path": "harness/dawn", "serves_properties": [p for p in sorted(CHECKS) if CHECKS[p]["engine"] == "dawn" or CHECKS[p].get("also") == "dawn"],
         "kind_free_text": "E2/E3: real projects on a simulated disk (Load+Run histories, crashes, corruption) and the Cache.once engine"},
        {"name": "mvs", "path": "harness/mvs", "serves_properties": [p for p in sorted(CHECKS) if CHECKS[p]["engine"] == "mvs"],
         "kind_free_text": "E4: real resolver + pgavlin/mvs workers over simulated repositories"},
    ]
    manifest = {
        "version": 1,
        "setup_cmd": "./setup.sh",
        "hooks": {
            "guard": "go build -overlay (generated per run by tools/simgen); no source in /repo is changed and no build tag exists: with the overlay absent the shipped code is compiled byte for byte",
            "enable": "./check build  (simgen rewrites sync/atomic/os/runtime/rand/time selectors, go statements, channel operations and map ranges of dawn's packages and pgavlin/mvs into /verif/.work/<treehash>/, re-points the default dialer's vcs.DialGitRepository call at a seam defined in an overlay-only file of internal/mvs (harness/mvs/hook.go), and builds the engines with go test -c -overlay ... -modfile ...)",
            "baseline_off_cmd": "cd /repo && go test -vet=off -count=1 ./...",
            "source_commits": [],
            "add_only": True,
        },
        "engines": engines,
        "checks": checks,
        "not_applicable": na,
        "notes": "Technique: deterministic simulation with fault injection (DESIGN.md). One seed = one execution; VERIF_SEED selects the batch. Exit 0/1/2 = held / violation / undecided.",
    }
    with open(os.path.join(VERIF, "MANIFEST.json"), "w") as f:
        json.dump(manifest, f, indent=1)
        f.write("\n")
    with open(os.path.join(VERIF, "rules.json"), "w") as f:
        json.dump(rules, f, indent=1)
        f.write("\n")


if __name__ == "__main__":
    main()
