#!/usr/bin/env python3
"""Regenerates /verif/MANIFEST.json and /verif/rules.json from the tables below."""
import json
import os

VERIF = os.path.dirname(os.path.dirname(os.path.abspath(__file__)))

REAL_E1 = "real: runner/runner.go (Run, engine, gate, cycle check) instrumented by overlay; stub: targets (synthetic graph, bodies are yields); simulated: goroutine scheduling, sync, sync/atomic, sync.Map, runtime.NumCPU"
REAL_E2 = ("real: dawn root package (Load, loadPackage, module, function, sourceFile, target, project_index, GC, lineWriter), runner, pickle, diff, label, "
           "internal/project, internal/mvs.BuildList + pgavlin/mvs par.Work workers, the Starlark interpreter, encoding/json, the kernel file system on tmpfs; "
           "stub: target bodies (harness builtin sim_body), $HOME; simulated: goroutine scheduling, sync, atomics, map iteration order, math/rand, temp names, "
           "process death, file-system errors and torn writes")
REAL_E3 = "real: cache.go (Cache(), once and its generated Starlark wrapper), Starlark call machinery; stub: callables (harness builtins); simulated: goroutine scheduling, sync.RWMutex"
REAL_E4 = ("real: internal/mvs (BuildList, Get, UpgradeAll, Tidy, Reqs, Resolver incl. FetchProject temp-dir+rename, query.go), internal/project config read/write, "
           "pgavlin/mvs (BuildList, Req, ReqList, Upgrade, Downgrade, UpgradeAll) with its 10 par.Work workers; stub: network and git (simulated vcs.Repository behind dawn's Dialer); "
           "simulated: goroutine scheduling, sync, sync.Map, map order, math/rand, temp names, dial/list/fetch faults, file-system errors")

CHECKS = {
    "C04": dict(engine="runner", category="exploration",
                text="Seeded deterministic simulation of the real runner over generated dependency graphs (<=12 labels; chains, trees, diamonds, DAGs, back-edges, self-loops, overlapping cycles, failing/unknown targets), limits 1..16, four scheduler strategies. Oracle at every yield: <=1 LoadTarget and <=1 Evaluate per label; on return of every dependency request every requested label has finished and the handed error/target are the actual ones; Run returns the root's outcome. Sampling, not proof.",
                note="Interleavings are explored at sync/atomic/sync.Map/go points (sequentially consistent between them); plain-memory races between two such points are not explored. Targets are synthetic.",
                technique="deterministic simulation: seeded scheduler over instrumented sync/atomic, invariant monitors at every yield",
                design="§4 C04", real=REAL_E1,
                rule="seeded graph x scheduler strategy x schedule tape; one case = one simulated runner.Run; distinct_nontrivial = distinct (scenario hash, interleaving trace hash) with >=1 scheduling choice among >=2 runnable goroutines",
                assumptions=["scheduler granularity = synchronisation points", "synthetic targets issue one (or two) dependency requests then yield 0-3 times"]),
    "C05": dict(engine="runner", category="exploration",
                text="Same engine as C04. Oracle: the simulated Run returns within the step budget under every sampled schedule and limit (simulator-detected deadlock = all goroutines blocked; budget exhaustion under a fair scheduler = livelock); reachable cycle <=> build fails and some target is handed CyclicDependencyError; acyclic => never. Sampling, not proof.",
                note="Fairness: a goroutine chosen 128 times in a row yields to the longest-waiting runnable one, so spin-waits in cycle detection are not reported unless they exhaust 100000 steps.",
                technique="deterministic simulation: seeded scheduler, deadlock/livelock detection, cycle oracle from an independent graph model",
                design="§4 C05", real=REAL_E1,
                rule="as C04; probes count cyclic graphs and handed cycle errors",
                assumptions=["termination is judged under fair schedules (fairness bound 128)", "step budget 100000 per build (typical builds use 30-300 steps)"]),
    "C09": dict(engine="runner", category="exploration",
                text="Same engine as C04 with the simulator's NumCPU as the limit L in {1,2,3,4,8,16}. Invariants at every yield: executing <= L; 0 <= free slots <= L; executing <= L - free; at quiescence free == L; acyclic graphs complete at every L (esp. 1). The gate's free-slot count is read by reflection.",
                note="If a changed tree has no runner.gate.capacity field the slot-count invariants are skipped (counted in evidence as gate_not_readable) and only the behavioural ones remain.",
                technique="deterministic simulation: seeded scheduler, conservation invariants at every yield",
                design="§4 C09", real=REAL_E1,
                rule="as C04; probes count runs in which the gate was full / contended at limit 1",
                assumptions=["'executing' is counted by the harness targets: inside LoadTarget/Evaluate and outside EvaluateTargets"]),
}

NOT_APPLICABLE = {
    "C07": "pure function of its input (Decode(Encode(v)) ~ v): no schedule, clock, fault or history in the statement or the code path - not a simulation target (DESIGN.md §5); stream faults on the same codec are decided under C15, values flowing through it in builds under C01/C08",
    "C12": "label parsing/printing and path confinement are pure string functions: nothing for a simulator to schedule or fault (DESIGN.md §5)",
    "C16": "Diff(a,b) is a pure function of two values (DESIGN.md §5)",
    "C17": "glob-set matching is a pure function of (patterns, path) (DESIGN.md §5)",
    "C19": "config write/load round-trip is a pure function; the file is only a carrier (DESIGN.md §5)",
}

PENDING = {p: "claimed in DESIGN.md; its check is still being built in this session and is not registered until it runs clean on the unchanged tree" for p in "C01 C02 C03 C06 C08 C10 C11 C13 C14 C15 C18 C20".split()}  # property -> reason while its engine is not built yet


def main():
    checks = []
    rules = {}
    for pid in sorted(CHECKS):
        c = CHECKS[pid]
        checks.append({
            "property_id": pid,
            "quick_cmd": "./check %s --tier quick" % pid,
            "thorough_cmd": "./check %s --tier thorough" % pid,
            "evidence_file": "/verif/evidence/%s.json" % pid,
            "replay_cmd_template": "./check %s --replay {path}" % pid,
            "engine": c["engine"],
            "level_claimed": {"category": c["category"], "text": c["text"], "design_ref": c["design"]},
            "level_note": c["note"],
            "technique": c["technique"],
        })
        rules[pid] = {"rule": c["rule"], "real_vs_stub": c["real"], "assumptions": c["assumptions"]}
    na = [{"property_id": k, "reason": v} for k, v in sorted({**NOT_APPLICABLE, **PENDING}.items())]
    engines = [
        {"name": "runner", "path": "harness/runner", "serves_properties": [p for p in sorted(CHECKS) if CHECKS[p]["engine"] == "runner"],
         "kind_free_text": "E1: real runner.Run over synthetic targets under the simulated scheduler"},
        {"name": "dawn", "path": "harness/dawn", "serves_properties": [p for p in sorted(CHECKS) if CHECKS[p]["engine"] == "dawn"],
         "kind_free_text": "E2/E3: real projects on a simulated disk (Load+Run histories, crashes, corruption) and the Cache.once engine"},
        {"name": "mvs", "path": "harness/mvs", "serves_properties": [p for p in sorted(CHECKS) if CHECKS[p]["engine"] == "mvs"],
         "kind_free_text": "E4: real resolver + pgavlin/mvs workers over simulated repositories"},
    ]
    manifest = {
        "version": 1,
        "setup_cmd": "./setup.sh",
        "hooks": {
            "guard": "go build -overlay (generated per run by tools/simgen); no source in /repo is changed and no build tag exists: with the overlay absent the shipped code is compiled byte for byte",
            "enable": "./check build  (simgen rewrites sync/atomic/os/runtime/rand/time selectors, go statements and map ranges of dawn's packages and pgavlin/mvs into /verif/.work/<treehash>/ and builds the engines with go test -c -overlay ... -modfile ...)",
            "baseline_off_cmd": "cd /repo && go test -vet=off -count=1 ./...",
            "source_commits": [],
            "add_only": True,
        },
        "engines": engines,
        "checks": checks,
        "not_applicable": na,
        "notes": "Technique: deterministic simulation with fault injection (DESIGN.md). One seed = one execution; VERIF_SEED selects the batch. Exit 0/1/2 = held / violation / undecided.",
    }
    with open(os.path.join(VERIF, "MANIFEST.json"), "w") as f:
        json.dump(manifest, f, indent=1)
        f.write("\n")
    with open(os.path.join(VERIF, "rules.json"), "w") as f:
        json.dump(rules, f, indent=1)
        f.write("\n")


if __name__ == "__main__":
    main()
