#!/usr/bin/env python3
"""Behaviour-preserving changes (the other direction): every relevant check must stay quiet.

  tools/preserve_test.py <dir with R*-out/<n>/patch.diff> <tag>

Each patch is applied to $VERIF_REPO (default /repo) by tools/seedtest.py, which confirms that
it compiles and that the existing suite passes, runs the checks of its area and undoes it.
Results go to seeded/preserving/<tag>-<R>-<n>/ (patch.diff, NOTES.md, result.json).
"""
import json
import os
import re
import shutil
import subprocess
import sys

VERIF = os.path.dirname(os.path.dirname(os.path.abspath(__file__)))
AREA = {
    "R1": ["C06", "C01", "C03", "C08", "C02"],
    "R2": ["C18", "C13"],
    "R3": ["C04", "C05", "C09", "C20"],
    "R4": ["C01", "C02", "C03", "C14", "C15", "C13"],
    "R5": ["C10", "C11"],
}


def main():
    src, tag = sys.argv[1], sys.argv[2]
    for d in sorted(os.listdir(src)):
        m = re.match(r"(R\d)-out$", d)
        if not m:
            continue
        area = m.group(1)
        for n in sorted(os.listdir(os.path.join(src, d))):
            patch = os.path.join(src, d, n, "patch.diff")
            if not os.path.exists(patch):
                continue
            pid = "%s-%s-%s" % (tag, area, n)
            dst = os.path.join(VERIF, "seeded", "preserving", pid)
            if os.path.exists(os.path.join(dst, "result.json")):
                print(pid, "already done")
                continue
            os.makedirs(dst, exist_ok=True)
            for f in os.listdir(os.path.join(src, d, n)):
                if os.path.isfile(os.path.join(src, d, n, f)):
                    shutil.copy(os.path.join(src, d, n, f), os.path.join(dst, f))
            r = subprocess.run([sys.executable, os.path.join(VERIF, "tools", "seedtest.py"), os.path.join(dst, "patch.diff")] + AREA[area], capture_output=True, text=True)
            try:
                out = json.loads(r.stdout)
            except Exception:
                out = {"error": (r.stdout + r.stderr)[-800:], "checks": {}}
            json.dump(out, open(os.path.join(dst, "result.json"), "w"), indent=1)
            verdicts = {p: c.get("exit") for p, c in out.get("checks", {}).items()}
            print(pid, "compiles=%s suite=%s" % (out.get("compiles"), out.get("existing_suite_passes")), verdicts,
                  {p: c.get("classes") for p, c in out.get("checks", {}).items() if c.get("exit")}, flush=True)


if __name__ == "__main__":
    main()
