#!/bin/sh
# Every finding's replay must fail on the tree just before its repair (the parent of the
# "fix:" commit named in known_findings.json; the pinned tree for known, unrepaired findings)
# and pass on the current, repaired tree.
set -u
cd "$(dirname "$0")/.."
PIN=$(git -C /repo rev-list --max-parents=0 HEAD)
rc=0
for f in findings/*.json; do
  prop=$(python3 -c "import json,sys;print(json.load(open('$f'))['property'])")
  commit=$(python3 -c "
import json
for e in json.load(open('known_findings.json'))['findings']:
    if e.get('replay')=='$f' and e.get('status')=='fixed': print(e['commit'])")
  base=$PIN
  [ -n "$commit" ] && base="$commit^"
  WT=/tmp/dawn-before-$$
  git -C /repo worktree add -q --detach "$WT" "$base" || exit 2
  VERIF_REPO="$WT" VERIF_EVIDENCE_DIR=/tmp/verif-findings-evidence ./check "$prop" --replay "$f" >/dev/null 2>&1; old=$?
  git -C /repo worktree remove --force "$WT"
  VERIF_EVIDENCE_DIR=/tmp/verif-findings-evidence ./check "$prop" --replay "$f" >/dev/null 2>&1; new=$?
  echo "$f before-fix($base)=$old repaired=$new"
  case "$(basename $f)" in
    K*) [ "$new" = 1 ] || rc=1 ;;   # known, not repaired: still reproduces
    *)  [ "$old" = 1 ] && [ "$new" = 0 ] || rc=1 ;;
  esac
done
exit $rc
