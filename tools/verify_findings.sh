#!/bin/sh
# Every finding's replay must fail on the pinned tree and pass on the repaired one.
set -u
cd "$(dirname "$0")/.."
PIN=$(git -C /repo rev-list --max-parents=0 HEAD)
WT=/tmp/dawn-pinned-$$
git -C /repo worktree add -q --detach "$WT" "$PIN" || exit 2
trap 'git -C /repo worktree remove --force "$WT"' EXIT
rc=0
for f in findings/*.json; do
  prop=$(python3 -c "import json,sys;print(json.load(open('$f'))['property'])")
  VERIF_REPO="$WT" ./check "$prop" --replay "$f" >/dev/null 2>&1; old=$?
  ./check "$prop" --replay "$f" >/dev/null 2>&1; new=$?
  echo "$f pinned=$old repaired=$new"
  case "$(basename $f)" in
    K*) [ "$new" = 1 ] || rc=1 ;;   # known, not repaired: still reproduces
    *)  [ "$old" = 1 ] && [ "$new" = 0 ] || rc=1 ;;
  esac
done
exit $rc
