#!/bin/sh
# Builds the framework offline from files on disk only: the instrumenter, then the
# instrumented engines for /repo's current working tree.
set -e
cd "$(dirname "$0")"
export GOFLAGS=-mod=mod GOPROXY=off GOSUMDB=off GOTOOLCHAIN=local
mkdir -p bin evidence replays
(cd tools/simgen && go build -o ../../bin/simgen .)
./check build
