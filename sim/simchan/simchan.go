// Package simchan gives channel operations a simulated counterpart. Channels stay real Go
// channels (their buffers carry the data); what the simulator takes over is blocking: an
// operation that cannot proceed parks its goroutine in the simulator, and a rendezvous on an
// unbuffered (or full / empty) channel is performed by the simulator between the parked
// goroutine and the one that arrives later. With no simulation running every function is the
// plain channel operation.
package simchan

import (
	"fmt"
	"iter"
	"reflect"

	"verif.local/sim/simrt"
)

// Case is one communication of a select.
type Case struct {
	send bool
	ch   reflect.Value
	val  reflect.Value
}

func R[T any](ch <-chan T) Case { return Case{ch: reflect.ValueOf(ch)} }

// S is the case "ch <- v". v is taken as the expression's own value (an untyped constant
// arrives with its default type) and converted to the element type as the statement would.
func S[T any](ch chan<- T, v any) Case {
	t := elem[T](v)
	return Case{send: true, ch: reflect.ValueOf(ch), val: reflect.ValueOf(&t).Elem()}
}

func elem[T any](v any) T {
	if t, ok := v.(T); ok {
		return t
	}
	var t T
	if v == nil {
		return t
	}
	out := reflect.ValueOf(&t).Elem()
	out.Set(reflect.ValueOf(v).Convert(out.Type()))
	return t
}

// Got converts the value a select received on ch.
func Got[T any](ch <-chan T, r any) T {
	if r == nil {
		var zero T
		return zero
	}
	return r.(T)
}

func Send[T any](ch chan<- T, v any) {
	if simrt.Current() == nil {
		ch <- elem[T](v)
		return
	}
	Select(false, S(ch, v))
}

func Recv[T any](ch <-chan T) T {
	if simrt.Current() == nil {
		return <-ch
	}
	_, r, _ := Select(false, R(ch))
	return Got(ch, r)
}

func Recv2[T any](ch <-chan T) (T, bool) {
	if simrt.Current() == nil {
		v, ok := <-ch
		return v, ok
	}
	_, r, ok := Select(false, R(ch))
	return Got(ch, r), ok
}

func Close[T any](ch chan<- T) {
	s := simrt.Current()
	if s == nil {
		close(ch)
		return
	}
	rv := reflect.ValueOf(ch)
	s.Yield("chan-close", name(s, rv))
	close(ch)
	st := state(s)
	st.wakeAll(s, rv)
}

func Range[T any](ch <-chan T) iter.Seq[T] {
	return func(yield func(T) bool) {
		for {
			v, ok := Recv2(ch)
			if !ok || !yield(v) {
				return
			}
		}
	}
}

type waiter struct {
	g     *simrt.G
	cases []Case
	done  bool
	idx   int
	val   any
	ok    bool
}

type chans struct {
	q map[uintptr][]*waiter
}

func state(s *simrt.Sim) *chans {
	if st, ok := s.Ext["simchan"].(*chans); ok {
		return st
	}
	st := &chans{q: map[uintptr][]*waiter{}}
	s.Ext["simchan"] = st
	return st
}

func name(s *simrt.Sim, ch reflect.Value) string {
	if ch.IsNil() {
		return "nil-chan"
	}
	return fmt.Sprintf("ch%d", s.ObjID(ch.Pointer()))
}

func (st *chans) wakeAll(s *simrt.Sim, ch reflect.Value) {
	for _, w := range st.q[ch.Pointer()] {
		s.Ready(w.g)
	}
}

func (st *chans) remove(w *waiter) {
	for _, c := range w.cases {
		if c.ch.IsNil() {
			continue
		}
		k := c.ch.Pointer()
		q := st.q[k]
		for i := 0; i < len(q); i++ {
			if q[i] == w {
				q = append(q[:i:i], q[i+1:]...)
				i--
			}
		}
		if len(q) == 0 {
			delete(st.q, k)
		} else {
			st.q[k] = q
		}
	}
}

// counterpart finds the longest-parked goroutine waiting on ch in the other direction.
func (st *chans) counterpart(ch reflect.Value, wantSend bool) (*waiter, int) {
	for _, w := range st.q[ch.Pointer()] {
		if w.done {
			continue
		}
		for j, c := range w.cases {
			if !c.ch.IsNil() && c.ch.Pointer() == ch.Pointer() && c.send == wantSend {
				return w, j
			}
		}
	}
	return nil, 0
}

func (st *chans) complete(s *simrt.Sim, w *waiter, idx int, val any, ok bool) {
	w.done, w.idx, w.val, w.ok = true, idx, val, ok
	st.remove(w)
	s.Ready(w.g)
}

// Select performs one of the cases, blocking in the simulator until one can proceed
// unless hasDefault. It returns the index of the case performed (-1: default) and, for a
// receive, the value and whether the channel was open.
func Select(hasDefault bool, cases ...Case) (int, any, bool) {
	s := simrt.Current()
	if s == nil {
		rc := make([]reflect.SelectCase, 0, len(cases)+1)
		for _, c := range cases {
			if c.send {
				rc = append(rc, reflect.SelectCase{Dir: reflect.SelectSend, Chan: c.ch, Send: c.val})
			} else {
				rc = append(rc, reflect.SelectCase{Dir: reflect.SelectRecv, Chan: c.ch})
			}
		}
		if hasDefault {
			rc = append(rc, reflect.SelectCase{Dir: reflect.SelectDefault})
		}
		i, v, ok := reflect.Select(rc)
		if i == len(cases) {
			return -1, nil, false
		}
		if !cases[i].send && v.IsValid() {
			return i, v.Interface(), ok
		}
		return i, nil, ok
	}

	detail := "select"
	if len(cases) == 1 {
		if cases[0].send {
			detail = "send " + name(s, cases[0].ch)
		} else {
			detail = "recv " + name(s, cases[0].ch)
		}
	}
	s.Yield("chan", detail)
	st := state(s)
	for {
		order := make([]int, len(cases))
		for i := range order {
			order[i] = i
		}
		if len(cases) > 1 {
			// a select chooses uniformly among its ready cases: try them in a drawn order
			for i := len(order) - 1; i > 0; i-- {
				j := s.Cfg.Sched.Intn(i + 1)
				order[i], order[j] = order[j], order[i]
			}
		}
		for _, i := range order {
			c := cases[i]
			if c.ch.IsNil() {
				continue
			}
			if !c.send {
				chosen, v, ok := reflect.Select([]reflect.SelectCase{{Dir: reflect.SelectRecv, Chan: c.ch}, {Dir: reflect.SelectDefault}})
				if chosen == 0 {
					st.wakeAll(s, c.ch) // a parked sender may now fit into the buffer
					if v.IsValid() && ok {
						return i, v.Interface(), true
					}
					return i, nil, false
				}
				if w, j := st.counterpart(c.ch, true); w != nil {
					v := w.cases[j].val.Interface()
					st.complete(s, w, j, nil, false)
					return i, v, true
				}
			} else {
				if w, j := st.counterpart(c.ch, false); w != nil {
					st.complete(s, w, j, c.val.Interface(), true)
					return i, nil, false
				}
				// panics on a closed channel, as the plain operation does
				chosen, _, _ := reflect.Select([]reflect.SelectCase{{Dir: reflect.SelectSend, Chan: c.ch, Send: c.val}, {Dir: reflect.SelectDefault}})
				if chosen == 0 {
					st.wakeAll(s, c.ch)
					return i, nil, false
				}
			}
		}
		if hasDefault {
			return -1, nil, false
		}
		w := &waiter{g: s.Cur(), cases: cases}
		seen := map[uintptr]bool{}
		on := ""
		for _, c := range cases {
			if c.ch.IsNil() || seen[c.ch.Pointer()] {
				continue
			}
			seen[c.ch.Pointer()] = true
			st.q[c.ch.Pointer()] = append(st.q[c.ch.Pointer()], w)
			on += " " + name(s, c.ch)
		}
		if on == "" {
			on = " nothing (nil channels or an empty select)"
		}
		s.Block("chan" + on)
		if w.done {
			return w.idx, w.val, w.ok
		}
		st.remove(w)
	}
}
