package simrt

import (
	"fmt"
	"iter"
	"sort"
)

// RangeMap replaces `for k, v := range m` in instrumented code: keys are snapshotted,
// sorted canonically, permuted by the Misc tape and yielded if still present. Pass-through
// (no simulation): the ordinary range.
func RangeMap[M ~map[K]V, K comparable, V any](m M) iter.Seq2[K, V] {
	return func(yield func(K, V) bool) {
		s := Current()
		if s == nil {
			for k, v := range m {
				if !yield(k, v) {
					return
				}
			}
			return
		}
		keys := make([]K, 0, len(m))
		for k := range m {
			keys = append(keys, k)
		}
		SortKeys(keys)
		s.Permute(len(keys), func(i, j int) { keys[i], keys[j] = keys[j], keys[i] })
		for _, k := range keys {
			v, ok := m[k]
			if !ok {
				continue
			}
			if !yield(k, v) {
				return
			}
		}
	}
}

// Permute applies a tape-drawn Fisher-Yates shuffle (0 draws = identity).
func (s *Sim) Permute(n int, swap func(i, j int)) {
	if s.Cfg.MapOrderFixed || s.dead {
		return
	}
	for i := 0; i < n-1; i++ {
		j := i + s.Cfg.Misc.Intn(n-i)
		if j != i {
			swap(i, j)
		}
	}
}

// SortKeys sorts keys of any comparable type canonically.
func SortKeys[K comparable](keys []K) {
	if len(keys) < 2 {
		return
	}
	switch ks := any(keys).(type) {
	case []string:
		sort.Strings(ks)
		return
	case []int:
		sort.Ints(ks)
		return
	}
	strs := make([]string, len(keys))
	for i, k := range keys {
		strs[i] = KeyString(any(k))
	}
	idx := make([]int, len(keys))
	for i := range idx {
		idx[i] = i
	}
	sort.SliceStable(idx, func(a, b int) bool { return strs[idx[a]] < strs[idx[b]] })
	out := make([]K, len(keys))
	for i, j := range idx {
		out[i] = keys[j]
	}
	copy(keys, out)
}

// KeyString renders a map key canonically. Values that print an address (pointers) have
// no canonical order across processes; instrumented packages are scanned for such ranges
// by simgen and reported.
func KeyString(k any) string {
	switch v := k.(type) {
	case string:
		return v
	case fmt.Stringer:
		return v.String()
	default:
		return fmt.Sprintf("%#v", k)
	}
}
