package simrt

import (
	"fmt"
	"math/rand/v2"
	"runtime"
	"runtime/debug"
	"sort"
	"strings"
	"sync/atomic"
	"time"
)

// FairnessBound bounds how long one goroutine can be chosen in a row while others are runnable.
const FairnessBound = 128

// Scheduling strategies (record mode only; a replay reads the recorded choices).
const (
	StratUniform = iota
	StratSticky
	StratPCT
	StratRoundRobin
	StratFIFO // never preempt: keep running the current goroutine while it is runnable
)

var StrategyNames = []string{"uniform", "sticky", "pct", "roundrobin", "fifo"}

// Failure kinds.
const (
	FailDeadlock  = "deadlock"
	FailPanic     = "panic"
	FailBudget    = "step-budget"
	FailInvariant = "invariant"
	FailFatal     = "fatal"
)

type Failure struct {
	Kind  string `json:"kind"`
	Msg   string `json:"msg"`
	Step  int    `json:"step"`
	Stack string `json:"stack,omitempty"`
	Gs    string `json:"goroutines,omitempty"`
}

func (f *Failure) Error() string { return f.Kind + ": " + f.Msg }

type gstate int

const (
	gRunnable gstate = iota
	gBlocked
	gSleeping
	gDone
)

// G is a simulated goroutine.
type G struct {
	ID      int
	Name    string
	wake    chan struct{}
	state   gstate
	on      string // what it is blocked on
	wakeAt  int64
	prio    int64
	lastRun int
	started bool
}

type Config struct {
	Sched *Tape // scheduling choices
	Misc  *Tape // map order, math/rand, temp names
	Fault *Tape // fault decisions

	Strategy  int
	StickyNum int // stay with probability StickyNum/100
	PCTDepth  int
	PCTEst    int // estimated steps for placing PCT change points

	MaxSteps int
	NumCPU   int

	CrashAt  int // global step at which the simulated process dies (0 = never)
	TornFrac int // if the crashing step is a file write: per-mille of the buffer that reaches disk

	// I/O error injection: the n-th (1-based) effectful simos operation fails with the errno.
	IOErrAt map[int]int
	// IOErrFrom > 0: a full disk - from the n-th simos operation on, every operation that
	// creates or writes fails with ENOSPC.
	IOErrFrom int
	// IOErrPerMille > 0 additionally draws random I/O errors from the Fault tape.
	IOErrPerMille int

	CondSignalAny bool // Signal wakes a tape-chosen waiter instead of the oldest
	UnlockYields  bool // releasing a lock is a yield point too: others can see the lock held (TryLock, a pending writer)
	MapOrderFixed bool // RangeMap iterates in canonical sorted order (no draws)
	ReadDirPerm   bool // unsorted directory listings are permuted per directory generation
	SplitWrites   bool // file writes are split in two (a yield in between)

	TempDir  string
	Watchdog time.Duration
	TraceMax int // keep up to this many decoded trace lines (0 = none)
}

// Sim is one simulated process.
type Sim struct {
	Cfg Config

	gs       []*G
	cur      *G
	root     *G
	rootDone bool

	steps        int
	lastG        *G
	sameRun      int
	Switches     int
	ChoicePoints int
	MaxRunnable  int
	traceHash    uint64
	Trace        []string

	dead    bool
	Crashed bool // died because CrashAt was reached
	CrashOp string
	Failure *Failure
	Stuck   bool

	now int64

	done chan struct{}

	Invariants []func() string
	// OnStep, if set, is called at every yield point with (step, kind, detail) before the
	// crash decision; it must not call sim primitives.
	OnStep func(step int, kind, detail string)

	objIDs map[any]int

	pctPoints map[int]bool
	pctInit   bool

	IOOps      int // effectful simos operations so far
	TempSerial int
	FaultsHit  map[string]int
	Probes     map[string]int
	dirGen     map[string]int
	Closers    []func()
	// Ext holds per-simulation state of other sim packages (simchan's wait queues).
	Ext map[string]any
}

var active atomic.Pointer[Sim]

// Current returns the running simulation, or nil (pass-through mode).
func Current() *Sim { return active.Load() }

func New(cfg Config) *Sim {
	if cfg.MaxSteps == 0 {
		cfg.MaxSteps = 200000
	}
	if cfg.NumCPU == 0 {
		cfg.NumCPU = 4
	}
	if cfg.Watchdog == 0 {
		cfg.Watchdog = 120 * time.Second
	}
	if cfg.Sched == nil {
		cfg.Sched = NewReplayTape("sched", nil)
	}
	if cfg.Misc == nil {
		cfg.Misc = NewReplayTape("misc", nil)
	}
	if cfg.Fault == nil {
		cfg.Fault = NewReplayTape("fault", nil)
	}
	if cfg.PCTEst == 0 {
		cfg.PCTEst = 300
	}
	return &Sim{Cfg: cfg, objIDs: map[any]int{}, FaultsHit: map[string]int{}, Probes: map[string]int{}, dirGen: map[string]int{}, Ext: map[string]any{}, traceHash: 0xcbf29ce484222325}
}

// Run executes root as the first simulated goroutine and returns when every simulated
// goroutine has exited (or the watchdog fires: Stuck).
func (s *Sim) Run(root func()) {
	if active.Load() != nil {
		panic("simrt: nested simulation")
	}
	s.done = make(chan struct{})
	active.Store(s)
	g := s.newG("root")
	s.root = g
	s.startReal(g, root)
	s.cur = g
	g.wake <- struct{}{}
	select {
	case <-s.done:
	case <-time.After(s.Cfg.Watchdog):
		s.Stuck = true
	}
	active.Store(nil)
}

func (s *Sim) Steps() int        { return s.steps }
func (s *Sim) Now() int64        { return s.now }
func (s *Sim) Dead() bool        { return s.dead }
func (s *Sim) RootDone() bool    { return s.rootDone }
func (s *Sim) TraceHash() uint64 { return s.traceHash }
func (s *Sim) NumG() int         { return len(s.gs) }
func (s *Sim) Cur() *G           { return s.cur }
func (s *Sim) Probe(name string) { s.Probes[name]++ }

func (s *Sim) newG(name string) *G {
	g := &G{ID: len(s.gs), Name: name, wake: make(chan struct{}, 1)}
	s.gs = append(s.gs, g)
	return g
}

func (s *Sim) startReal(g *G, f func()) {
	go func() {
		<-g.wake
		g.started = true
		defer s.exit(g)
		defer func() {
			if r := recover(); r != nil {
				s.fail(FailPanic, fmt.Sprint(r), string(debug.Stack()))
			}
		}()
		if s.dead {
			return
		}
		f()
	}()
}

// Go starts a simulated goroutine (pass-through: a real one).
func Go(f func()) {
	s := Current()
	if s == nil {
		go f()
		return
	}
	s.enter()
	g := s.newG(callerName(2))
	s.startReal(g, f)
	s.Yield("go", g.Name)
}

func callerName(skip int) string {
	_, file, line, ok := runtime.Caller(skip)
	if !ok {
		return "?"
	}
	if i := strings.LastIndexByte(file, '/'); i >= 0 {
		file = file[i+1:]
	}
	return fmt.Sprintf("%s:%d", file, line)
}

// enter must be the first thing every simulated primitive does: a goroutine of a dead
// process performs no further effect.
func (s *Sim) enter() {
	if s.dead {
		runtime.Goexit()
	}
}

// Enter is enter for other sim packages.
func (s *Sim) Enter() { s.enter() }

func (s *Sim) fail(kind, msg, stack string) {
	if s.Failure == nil {
		s.Failure = &Failure{Kind: kind, Msg: msg, Step: s.steps, Stack: stack, Gs: s.dumpGs()}
	}
	s.dead = true
}

// Fail records a failure found by a harness monitor and kills the simulated process.
func (s *Sim) Fail(kind, msg string) {
	s.fail(kind, msg, "")
	runtime.Goexit()
}

func (s *Sim) dumpGs() string {
	var sb strings.Builder
	for _, g := range s.gs {
		st := [...]string{"runnable", "blocked", "sleeping", "done"}[g.state]
		fmt.Fprintf(&sb, "g%d[%s] %s", g.ID, g.Name, st)
		if g.state == gBlocked || g.state == gSleeping {
			fmt.Fprintf(&sb, " on %s", g.on)
		}
		sb.WriteString("; ")
	}
	return sb.String()
}

// ObjID gives a stable small id to a synchronisation object, for traces.
func (s *Sim) ObjID(o any) int {
	id, ok := s.objIDs[o]
	if !ok {
		id = len(s.objIDs) + 1
		s.objIDs[o] = id
	}
	return id
}

func (s *Sim) note(g *G, kind, detail string) {
	g.lastRun = s.steps
	h := s.traceHash
	h ^= uint64(g.ID) + 1
	h *= 0x100000001b3
	for i := 0; i < len(kind); i++ {
		h ^= uint64(kind[i])
		h *= 0x100000001b3
	}
	s.traceHash = h
	if s.Cfg.TraceMax > 0 && len(s.Trace) < s.Cfg.TraceMax {
		s.Trace = append(s.Trace, fmt.Sprintf("%d g%d[%s] %s %s", s.steps, g.ID, g.Name, kind, detail))
	}
}

// step accounts one yield point: budget, invariants, crash.
// It returns false if the process died at this step (caller must Goexit).
func (s *Sim) step(kind, detail string) bool {
	s.steps++
	s.note(s.cur, kind, detail)
	if s.OnStep != nil {
		s.OnStep(s.steps, kind, detail)
	}
	for _, inv := range s.Invariants {
		if msg := inv(); msg != "" {
			s.fail(FailInvariant, msg, "")
			return false
		}
	}
	if s.steps > s.Cfg.MaxSteps {
		s.fail(FailBudget, fmt.Sprintf("no termination within %d scheduler steps", s.Cfg.MaxSteps), "")
		return false
	}
	if s.Cfg.CrashAt > 0 && s.steps == s.Cfg.CrashAt {
		s.Crashed = true
		s.CrashOp = kind + " " + detail
		s.dead = true
		return false
	}
	return true
}

// Yield is a scheduling point: the current goroutine stays runnable, the tape picks who
// runs next.
func (s *Sim) Yield(kind, detail string) {
	s.enter()
	if !s.step(kind, detail) {
		runtime.Goexit()
	}
	self := s.cur
	next := s.pick(self, true)
	if next == self {
		return
	}
	s.switchTo(next)
	s.park(self)
}

// WillCrashNow reports whether the next step is the crash step (used by simos to tear a
// write instead of dropping it).
func (s *Sim) WillCrashNow() bool {
	return s.Cfg.CrashAt > 0 && s.steps+1 == s.Cfg.CrashAt && !s.dead
}

// Block parks the current goroutine until Ready is called for it.
func (s *Sim) Block(on string) {
	s.enter()
	self := s.cur
	self.state = gBlocked
	self.on = on
	s.dispatchFrom(self)
	s.park(self)
}

// SleepUntil parks the current goroutine until simulated time t.
func (s *Sim) SleepUntil(t int64) {
	s.enter()
	self := s.cur
	self.state = gSleeping
	self.wakeAt = t
	self.on = fmt.Sprintf("sleep until %d", t)
	s.dispatchFrom(self)
	s.park(self)
}

// Ready makes a blocked goroutine runnable again.
func (s *Sim) Ready(g *G) {
	if g.state == gBlocked || g.state == gSleeping {
		g.state = gRunnable
		g.on = ""
	}
}

func (s *Sim) park(self *G) {
	<-self.wake
	if s.dead {
		runtime.Goexit()
	}
}

func (s *Sim) switchTo(next *G) {
	s.Switches++
	s.cur = next
	next.wake <- struct{}{}
}

// dispatchFrom is called by a goroutine that cannot continue (blocked or exiting): it
// hands the baton to someone else, or detects quiescence / deadlock.
func (s *Sim) dispatchFrom(self *G) {
	if s.dead {
		s.killNext(self)
		return
	}
	next := s.pick(self, false)
	if next == nil {
		// Nothing runnable and no sleeper.
		blocked := 0
		for _, g := range s.gs {
			if g.state == gBlocked {
				blocked++
			}
		}
		if blocked > 0 && !s.rootDone {
			s.fail(FailDeadlock, "all goroutines are blocked", "")
		}
		if blocked > 0 && s.rootDone {
			s.Probes["leftover_blocked_goroutines"] += blocked
		}
		s.dead = true
		if self.state != gDone {
			// self is blocked: it dies too.
			runtime.Goexit()
		}
		s.killNext(self)
		return
	}
	s.switchTo(next)
}

// killNext wakes the next goroutine that still has to die, or signals completion.
func (s *Sim) killNext(self *G) {
	for _, g := range s.gs {
		if g != self && g.state != gDone {
			s.cur = g
			g.wake <- struct{}{}
			return
		}
	}
	if self.state != gDone {
		// self is still unwinding (it will reach exit and come back here).
		return
	}
	close(s.done)
}

func (s *Sim) exit(g *G) {
	g.state = gDone
	if g == s.root {
		s.rootDone = true
	}
	if !s.dead {
		s.steps++
		s.note(g, "exit", "")
	}
	s.dispatchFrom(g)
}

// pick chooses the next goroutine among the runnable ones. withSelf: self is a candidate
// (listed first, so choice 0 = keep running).
func (s *Sim) pick(self *G, withSelf bool) *G {
	for {
		cands := s.candidates(self, withSelf)
		if len(cands) == 0 {
			// advance the clock to the next sleeper, if any
			var soonest *G
			for _, g := range s.gs {
				if g.state == gSleeping && (soonest == nil || g.wakeAt < soonest.wakeAt) {
					soonest = g
				}
			}
			if soonest == nil {
				return nil
			}
			if soonest.wakeAt > s.now {
				s.now = soonest.wakeAt
			}
			for _, g := range s.gs {
				if g.state == gSleeping && g.wakeAt <= s.now {
					s.Ready(g)
				}
			}
			continue
		}
		if len(cands) > s.MaxRunnable {
			s.MaxRunnable = len(cands)
		}
		if len(cands) == 1 {
			return cands[0]
		}
		// Fairness: a goroutine that has been chosen FairnessBound times in a row while
		// others were runnable must let the next one run. This is a deterministic function
		// of the history (no draw), and keeps spin-waits from starving the goroutine they
		// wait for under any tape, including an exhausted one.
		if withSelf {
			if s.lastG == self {
				s.sameRun++
			} else {
				s.lastG, s.sameRun = self, 0
			}
			if s.sameRun >= FairnessBound+s.Probes["fairness_forced_switch"]%3 {
				// (the bound varies - 128, 129, 130 - so that forced switches cannot stay in
				// step with a spin of period two or three)
				s.sameRun = 0
				s.Probes["fairness_forced_switch"]++
				// the runnable goroutine that has waited longest gets the turn
				best := cands[1]
				for _, g := range cands[1:] {
					if g.lastRun < best.lastRun {
						best = g
					}
				}
				if self.prio != 0 {
					self.prio = 1 // PCT: a spinning goroutine drops below everyone
				}
				return best
			}
		}
		s.ChoicePoints++
		i := s.Cfg.Sched.Draw(len(cands), func(r *rand.Rand) int { return s.strategyPick(r, cands, self, withSelf) })
		return cands[i]
	}
}

func (s *Sim) candidates(self *G, withSelf bool) []*G {
	var cands []*G
	if withSelf {
		cands = append(cands, self)
	}
	n := len(s.gs)
	start := 0
	if self != nil {
		start = self.ID + 1
	}
	for k := 0; k < n; k++ {
		g := s.gs[(start+k)%n]
		if g == self {
			continue
		}
		if g.state == gRunnable {
			cands = append(cands, g)
		}
	}
	return cands
}

func (s *Sim) strategyPick(r *rand.Rand, cands []*G, self *G, withSelf bool) int {
	n := len(cands)
	switch s.Cfg.Strategy {
	case StratSticky:
		if withSelf && r.IntN(100) < s.Cfg.StickyNum {
			return 0
		}
		return r.IntN(n)
	case StratPCT:
		if !s.pctInit {
			s.pctInit = true
			s.pctPoints = map[int]bool{}
			for i := 0; i < s.Cfg.PCTDepth; i++ {
				s.pctPoints[1+r.IntN(s.Cfg.PCTEst)] = true
			}
		}
		for _, g := range cands {
			if g.prio == 0 {
				g.prio = int64(r.Uint64()>>2) | 1<<40
			}
		}
		if withSelf && s.pctPoints[s.steps] {
			delete(s.pctPoints, s.steps)
			self.prio = int64(r.IntN(1<<20)) + 1 // below every initial priority
		}
		best := 0
		for i, g := range cands {
			if g.prio > cands[best].prio {
				best = i
			}
		}
		return best
	case StratRoundRobin:
		if withSelf {
			return 1 % n
		}
		return 0
	case StratFIFO:
		return 0
	default:
		return r.IntN(n)
	}
}

// Gs returns a description of all goroutines (for reports).
func (s *Sim) Gs() string { return s.dumpGs() }

// SortedKeys is a helper for deterministic iteration in harness code.
func SortedKeys[V any](m map[string]V) []string {
	ks := make([]string, 0, len(m))
	for k := range m {
		ks = append(ks, k)
	}
	sort.Strings(ks)
	return ks
}

// NumCPU is what instrumented code sees instead of runtime.NumCPU.
func NumCPU() int {
	if s := Current(); s != nil {
		return s.Cfg.NumCPU
	}
	return runtime.NumCPU()
}

// GOMAXPROCS: the simulated process runs with GOMAXPROCS raised above its number of CPUs
// (as GOMAXPROCS=n in the environment or `go test -cpu` does), so that code which confuses
// the two is told apart.
func GOMAXPROCS(n int) int {
	if s := Current(); s != nil {
		return s.Cfg.NumCPU + 3
	}
	return runtime.GOMAXPROCS(n)
}

func Gosched() {
	if s := Current(); s != nil {
		s.Yield("gosched", "")
		return
	}
	runtime.Gosched()
}

// Cleanup releases real resources (file descriptors) that dead goroutines left behind.
func (s *Sim) Cleanup() {
	for _, c := range s.Closers {
		c()
	}
	s.Closers = nil
}
