// Package simrt is the deterministic simulation runtime: one runnable goroutine at a
// time, chosen by a seeded choice tape; crash = every goroutine is released into
// runtime.Goexit; nothing here reads a clock or an unseeded random source.
package simrt

import (
	"encoding/json"
	"fmt"
	"math/rand/v2"
	"sort"
	"strconv"
	"strings"
)

// A Tape is a sequence of choices. In record mode values come from a seeded generator and
// are appended; in replay mode they are read back (mod n), and 0 — "the boring choice" —
// is returned once the tape is exhausted.
type Tape struct {
	Name   string
	vals   []uint32
	pos    int
	replay bool
	rng    *rand.Rand
	used   []uint32
}

func NewRecordTape(name string, seed uint64) *Tape {
	return &Tape{Name: name, rng: rand.New(rand.NewPCG(seed, Mix(seed, 0x9e3779b97f4a7c15)))}
}

func NewReplayTape(name string, vals []uint32) *Tape {
	return &Tape{Name: name, vals: vals, replay: true}
}

// Draw returns a value in [0,n). gen is only used in record mode.
func (t *Tape) Draw(n int, gen func(r *rand.Rand) int) int {
	if n <= 0 {
		panic("simrt: Draw with n <= 0")
	}
	var v int
	if t.replay {
		if t.pos < len(t.vals) {
			v = int(t.vals[t.pos] % uint32(n))
		}
		t.pos++
	} else {
		if gen != nil {
			v = gen(t.rng)
		} else {
			v = t.rng.IntN(n)
		}
		if v < 0 || v >= n {
			panic(fmt.Sprintf("simrt: generator returned %d outside [0,%d)", v, n))
		}
	}
	t.used = append(t.used, uint32(v))
	return v
}

// Intn draws uniformly (record mode).
func (t *Tape) Intn(n int) int { return t.Draw(n, nil) }

// Chance returns true with probability num/den in record mode; the recorded value is 1/0.
func (t *Tape) Chance(num, den int) bool {
	return t.Draw(2, func(r *rand.Rand) int {
		if r.IntN(den) < num {
			return 1
		}
		return 0
	}) == 1
}

// Used returns the values actually consumed (normalised), trailing zeros trimmed.
func (t *Tape) Used() []uint32 {
	u := t.used
	for len(u) > 0 && u[len(u)-1] == 0 {
		u = u[:len(u)-1]
	}
	out := make([]uint32, len(u))
	copy(out, u)
	return out
}

func (t *Tape) Consumed() int { return len(t.used) }

// Mix is splitmix64 over two words.
func Mix(a, b uint64) uint64 {
	z := a + 0x9e3779b97f4a7c15*(b+1)
	z = (z ^ (z >> 30)) * 0xbf58476d1ce4e5b9
	z = (z ^ (z >> 27)) * 0x94d049bb133111eb
	return z ^ (z >> 31)
}

func MixString(a uint64, s string) uint64 {
	h := a ^ 0xcbf29ce484222325
	for i := 0; i < len(s); i++ {
		h ^= uint64(s[i])
		h *= 0x100000001b3
	}
	return Mix(h, uint64(len(s)))
}

// TapeData is the JSON form of a tape: a run-length encoded string "0*12,3,0*5,1".
type TapeData []uint32

func (d TapeData) MarshalJSON() ([]byte, error) {
	var sb strings.Builder
	for i := 0; i < len(d); {
		j := i
		for j < len(d) && d[j] == d[i] {
			j++
		}
		if sb.Len() > 0 {
			sb.WriteByte(',')
		}
		sb.WriteString(strconv.FormatUint(uint64(d[i]), 10))
		if j-i > 1 {
			sb.WriteByte('*')
			sb.WriteString(strconv.Itoa(j - i))
		}
		i = j
	}
	return json.Marshal(sb.String())
}

func (d *TapeData) UnmarshalJSON(b []byte) error {
	var s string
	if err := json.Unmarshal(b, &s); err != nil {
		return err
	}
	*d = nil
	if s == "" {
		return nil
	}
	for _, part := range strings.Split(s, ",") {
		val, cnt := part, "1"
		if i := strings.IndexByte(part, '*'); i >= 0 {
			val, cnt = part[:i], part[i+1:]
		}
		v, err := strconv.ParseUint(val, 10, 32)
		if err != nil {
			return err
		}
		c, err := strconv.Atoi(cnt)
		if err != nil {
			return err
		}
		for k := 0; k < c; k++ {
			*d = append(*d, uint32(v))
		}
	}
	return nil
}

// A TapeSet hands out named tapes. In record mode each is seeded from (seed, name), so
// removing one consumer does not shift the others; in replay mode each reads its recorded
// values (zeros when absent).
type TapeSet struct {
	Seed   uint64
	Replay map[string]TapeData // nil = record mode
	tapes  map[string]*Tape
}

func NewTapeSet(seed uint64, replay map[string]TapeData) *TapeSet {
	return &TapeSet{Seed: seed, Replay: replay, tapes: map[string]*Tape{}}
}

func (ts *TapeSet) Get(name string) *Tape {
	if t, ok := ts.tapes[name]; ok {
		return t
	}
	var t *Tape
	if ts.Replay != nil {
		t = NewReplayTape(name, ts.Replay[name])
	} else {
		t = NewRecordTape(name, MixString(ts.Seed, name))
	}
	ts.tapes[name] = t
	return t
}

// Snapshot returns what was consumed from every tape, for the replay file.
func (ts *TapeSet) Snapshot() map[string]TapeData {
	out := map[string]TapeData{}
	names := make([]string, 0, len(ts.tapes))
	for n := range ts.tapes {
		names = append(names, n)
	}
	sort.Strings(names)
	for _, n := range names {
		if u := ts.tapes[n].Used(); len(u) > 0 {
			out[n] = u
		}
	}
	return out
}
