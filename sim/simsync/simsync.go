// Package simsync mirrors package sync. With no simulation running every type behaves
// exactly like its sync counterpart; under a simulation each acquiring operation is a
// scheduling point and blocking is decided by the simulator.
package simsync

import (
	"fmt"
	"sync"

	"verif.local/sim/simrt"
)

type Locker = sync.Locker
type Pool = sync.Pool

// ---------------------------------------------------------------- Mutex

type Mutex struct {
	real    sync.Mutex
	locked  bool
	waiters []*simrt.G
	// As sync.Mutex does in its starvation mode, a goroutine that was woken several times and
	// found the mutex taken again is handed the mutex directly by the next Unlock: starving
	// lists such goroutines, handoff is the one the locked mutex now belongs to.
	starving []*simrt.G
	handoff  *simrt.G
}

func (m *Mutex) Lock() {
	s := simrt.Current()
	if s == nil {
		m.real.Lock()
		return
	}
	s.Yield("lock", fmt.Sprintf("m%d", s.ObjID(m)))
	self := s.Cur()
	for lost := 0; m.locked; lost++ {
		if m.handoff == self {
			m.handoff = nil // handed over by Unlock: still locked, now ours
			return
		}
		if lost == 3 {
			m.starving = append(m.starving, self)
		}
		m.waiters = append(m.waiters, self)
		s.Block(fmt.Sprintf("mutex m%d", s.ObjID(m)))
	}
	for i, g := range m.starving {
		if g == self {
			m.starving = append(m.starving[:i:i], m.starving[i+1:]...)
			break
		}
	}
	m.locked = true
}

func (m *Mutex) TryLock() bool {
	s := simrt.Current()
	if s == nil {
		return m.real.TryLock()
	}
	s.Yield("trylock", fmt.Sprintf("m%d", s.ObjID(m)))
	if m.locked {
		return false
	}
	m.locked = true
	return true
}

func (m *Mutex) Unlock() {
	s := simrt.Current()
	if s == nil {
		m.real.Unlock()
		return
	}
	if s.Cfg.UnlockYields {
		s.Yield("unlock", fmt.Sprintf("m%d", s.ObjID(m)))
	} else {
		s.Enter()
	}
	if !m.locked {
		s.Fail(simrt.FailFatal, "sync: unlock of unlocked mutex")
	}
	if len(m.starving) > 0 {
		// starvation mode: the mutex goes straight to the goroutine that has waited longest
		g := m.starving[0]
		m.starving = m.starving[1:]
		m.handoff = g
		for i, w := range m.waiters {
			if w == g {
				m.waiters = append(m.waiters[:i:i], m.waiters[i+1:]...)
				break
			}
		}
		s.Ready(g)
		return
	}
	m.locked = false
	for _, g := range m.waiters {
		s.Ready(g)
	}
	m.waiters = m.waiters[:0]
}

// ---------------------------------------------------------------- RWMutex

type RWMutex struct {
	real     sync.RWMutex
	writer   bool
	readers  int
	pendingW int
	waiters  []*simrt.G
}

func (m *RWMutex) wakeAll(s *simrt.Sim) {
	for _, g := range m.waiters {
		s.Ready(g)
	}
	m.waiters = m.waiters[:0]
}

func (m *RWMutex) Lock() {
	s := simrt.Current()
	if s == nil {
		m.real.Lock()
		return
	}
	s.Yield("wlock", fmt.Sprintf("rw%d", s.ObjID(m)))
	m.pendingW++
	for m.writer || m.readers > 0 {
		m.waiters = append(m.waiters, s.Cur())
		s.Block(fmt.Sprintf("rwmutex rw%d (write)", s.ObjID(m)))
	}
	m.pendingW--
	m.writer = true
}

func (m *RWMutex) Unlock() {
	s := simrt.Current()
	if s == nil {
		m.real.Unlock()
		return
	}
	if s.Cfg.UnlockYields {
		s.Yield("unlock", fmt.Sprintf("rw%d", s.ObjID(m)))
	} else {
		s.Enter()
	}
	if !m.writer {
		s.Fail(simrt.FailFatal, "sync: Unlock of unlocked RWMutex")
	}
	m.writer = false
	m.wakeAll(s)
}

func (m *RWMutex) RLock() {
	s := simrt.Current()
	if s == nil {
		m.real.RLock()
		return
	}
	s.Yield("rlock", fmt.Sprintf("rw%d", s.ObjID(m)))
	// As in sync.RWMutex, a pending writer excludes new readers.
	for m.writer || m.pendingW > 0 {
		m.waiters = append(m.waiters, s.Cur())
		s.Block(fmt.Sprintf("rwmutex rw%d (read)", s.ObjID(m)))
	}
	m.readers++
}

func (m *RWMutex) RUnlock() {
	s := simrt.Current()
	if s == nil {
		m.real.RUnlock()
		return
	}
	if s.Cfg.UnlockYields {
		s.Yield("unlock", fmt.Sprintf("rw%d", s.ObjID(m)))
	} else {
		s.Enter()
	}
	if m.readers <= 0 {
		s.Fail(simrt.FailFatal, "sync: RUnlock of unlocked RWMutex")
	}
	m.readers--
	if m.readers == 0 {
		m.wakeAll(s)
	}
}

func (m *RWMutex) TryLock() bool {
	s := simrt.Current()
	if s == nil {
		return m.real.TryLock()
	}
	s.Yield("trywlock", fmt.Sprintf("rw%d", s.ObjID(m)))
	if m.writer || m.readers > 0 {
		return false
	}
	m.writer = true
	return true
}

func (m *RWMutex) TryRLock() bool {
	s := simrt.Current()
	if s == nil {
		return m.real.TryRLock()
	}
	s.Yield("tryrlock", fmt.Sprintf("rw%d", s.ObjID(m)))
	if m.writer || m.pendingW > 0 {
		return false
	}
	m.readers++
	return true
}

type rlocker RWMutex

func (r *rlocker) Lock()   { (*RWMutex)(r).RLock() }
func (r *rlocker) Unlock() { (*RWMutex)(r).RUnlock() }

func (m *RWMutex) RLocker() Locker { return (*rlocker)(m) }

// ---------------------------------------------------------------- Cond

type Cond struct {
	L Locker

	once    sync.Once
	real    *sync.Cond
	waiters []*simrt.G
}

func NewCond(l Locker) *Cond { return &Cond{L: l} }

func (c *Cond) passthrough() *sync.Cond {
	c.once.Do(func() { c.real = sync.NewCond(c.L) })
	return c.real
}

func (c *Cond) Wait() {
	s := simrt.Current()
	if s == nil {
		c.passthrough().Wait()
		return
	}
	s.Enter()
	g := s.Cur()
	c.waiters = append(c.waiters, g)
	c.L.Unlock()
	s.Block(fmt.Sprintf("cond c%d", s.ObjID(c)))
	c.L.Lock()
}

func (c *Cond) Signal() {
	s := simrt.Current()
	if s == nil {
		c.passthrough().Signal()
		return
	}
	s.Enter()
	if len(c.waiters) == 0 {
		return
	}
	i := 0
	if s.Cfg.CondSignalAny && len(c.waiters) > 1 {
		i = s.Cfg.Misc.Intn(len(c.waiters))
		if i != 0 {
			s.Probe("cond_signal_not_oldest")
		}
	}
	s.Ready(c.waiters[i])
	c.waiters = append(c.waiters[:i], c.waiters[i+1:]...)
}

func (c *Cond) Broadcast() {
	s := simrt.Current()
	if s == nil {
		c.passthrough().Broadcast()
		return
	}
	s.Enter()
	for _, g := range c.waiters {
		s.Ready(g)
	}
	c.waiters = c.waiters[:0]
}

// ---------------------------------------------------------------- WaitGroup

type WaitGroup struct {
	real    sync.WaitGroup
	n       int
	waiters []*simrt.G
}

func (wg *WaitGroup) Add(delta int) {
	s := simrt.Current()
	if s == nil {
		wg.real.Add(delta)
		return
	}
	s.Enter()
	wg.n += delta
	if wg.n < 0 {
		s.Fail(simrt.FailFatal, "sync: negative WaitGroup counter")
	}
	if wg.n == 0 {
		for _, g := range wg.waiters {
			s.Ready(g)
		}
		wg.waiters = wg.waiters[:0]
	}
}

func (wg *WaitGroup) Done() { wg.Add(-1) }

func (wg *WaitGroup) Wait() {
	s := simrt.Current()
	if s == nil {
		wg.real.Wait()
		return
	}
	s.Yield("wgwait", fmt.Sprintf("wg%d", s.ObjID(wg)))
	for wg.n > 0 {
		wg.waiters = append(wg.waiters, s.Cur())
		s.Block(fmt.Sprintf("waitgroup wg%d", s.ObjID(wg)))
	}
}

// ---------------------------------------------------------------- Once

type Once struct {
	real sync.Once
	done bool
	m    Mutex
}

func (o *Once) Do(f func()) {
	s := simrt.Current()
	if s == nil {
		o.real.Do(f)
		return
	}
	s.Yield("once", fmt.Sprintf("o%d", s.ObjID(o)))
	if o.done {
		return
	}
	o.m.Lock()
	defer o.m.Unlock()
	if !o.done {
		defer func() { o.done = true }()
		f()
	}
}

func OnceFunc(f func()) func() {
	var once Once
	return func() { once.Do(f) }
}

func OnceValue[T any](f func() T) func() T {
	var once Once
	var result T
	return func() T {
		once.Do(func() { result = f() })
		return result
	}
}

func OnceValues[T1, T2 any](f func() (T1, T2)) func() (T1, T2) {
	var once Once
	var r1 T1
	var r2 T2
	return func() (T1, T2) {
		once.Do(func() { r1, r2 = f() })
		return r1, r2
	}
}

// ---------------------------------------------------------------- Map

// Map stores into a real sync.Map in both modes; under simulation every method is a
// scheduling point and Range visits keys in a tape-chosen order.
type Map struct {
	real sync.Map
}

func (m *Map) yield(op string) {
	if s := simrt.Current(); s != nil {
		s.Yield("syncmap."+op, fmt.Sprintf("sm%d", s.ObjID(m)))
	}
}

func (m *Map) Load(key any) (any, bool)        { m.yield("Load"); return m.real.Load(key) }
func (m *Map) Store(key, value any)            { m.yield("Store"); m.real.Store(key, value) }
func (m *Map) Delete(key any)                  { m.yield("Delete"); m.real.Delete(key) }
func (m *Map) Clear()                          { m.yield("Clear"); m.real.Clear() }
func (m *Map) Swap(key, value any) (any, bool) { m.yield("Swap"); return m.real.Swap(key, value) }
func (m *Map) LoadOrStore(key, value any) (any, bool) {
	m.yield("LoadOrStore")
	return m.real.LoadOrStore(key, value)
}
func (m *Map) LoadAndDelete(key any) (any, bool) {
	m.yield("LoadAndDelete")
	return m.real.LoadAndDelete(key)
}
func (m *Map) CompareAndSwap(key, old, new any) bool {
	m.yield("CompareAndSwap")
	return m.real.CompareAndSwap(key, old, new)
}
func (m *Map) CompareAndDelete(key, old any) bool {
	m.yield("CompareAndDelete")
	return m.real.CompareAndDelete(key, old)
}

func (m *Map) Range(f func(key, value any) bool) {
	s := simrt.Current()
	if s == nil {
		m.real.Range(f)
		return
	}
	m.yield("Range")
	var keys []any
	m.real.Range(func(k, _ any) bool { keys = append(keys, k); return true })
	type kv struct {
		s string
		k any
	}
	kvs := make([]kv, len(keys))
	for i, k := range keys {
		kvs[i] = kv{simrt.KeyString(k), k}
	}
	for i := 1; i < len(kvs); i++ { // insertion sort: tiny maps
		for j := i; j > 0 && kvs[j].s < kvs[j-1].s; j-- {
			kvs[j], kvs[j-1] = kvs[j-1], kvs[j]
		}
	}
	s.Permute(len(kvs), func(i, j int) { kvs[i], kvs[j] = kvs[j], kvs[i] })
	for _, e := range kvs {
		v, ok := m.real.Load(e.k)
		if !ok {
			continue
		}
		if !f(e.k, v) {
			return
		}
	}
}
