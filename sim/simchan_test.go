package sim_test

import (
	"strings"
	"testing"
	"time"
	"verif.local/sim/simtime"

	"verif.local/sim/simchan"
	"verif.local/sim/simrt"
	"verif.local/sim/simsync"
)

func chanSim(seed uint64, strat int) *simrt.Sim {
	ts := simrt.NewTapeSet(seed, nil)
	return simrt.New(simrt.Config{Sched: ts.Get("s"), Misc: ts.Get("m"), Strategy: strat, StickyNum: 70, PCTDepth: 2})
}

// producers and consumers over unbuffered and buffered channels, a close, and a select:
// every item arrives exactly once under every schedule, and the same seed gives the same run.
func runPipeline(seed uint64, strat, buf int) (*simrt.Sim, int, int) {
	s := chanSim(seed, strat)
	sum, n := 0, 0
	s.Run(func() {
		data := make(chan int, buf)
		quit := make(chan struct{})
		results := make(chan int)
		var wg simsync.WaitGroup
		for p := 0; p < 3; p++ {
			wg.Add(1)
			simrt.Go(func() {
				defer wg.Done()
				for i := 1; i <= 4; i++ {
					simchan.Send(data, p*10+i)
				}
			})
		}
		for c := 0; c < 2; c++ {
			simrt.Go(func() {
				for {
					switch i, r, ok := simchan.Select(false, simchan.R(data), simchan.R(quit)); i {
					case 0:
						if !ok {
							return
						}
						simchan.Send(results, simchan.Got(data, r))
					case 1:
						return
					}
				}
			})
		}
		simrt.Go(func() {
			wg.Wait()
			simchan.Close(data)
		})
		for k := 0; k < 12; k++ {
			sum += simchan.Recv(results)
			n++
		}
		simchan.Close(quit)
		if _, ok := simchan.Recv2(data); ok {
			s.Fail(simrt.FailInvariant, "data still open")
		}
		if i, _, _ := simchan.Select(true, simchan.R(results)); i != -1 {
			s.Fail(simrt.FailInvariant, "default not taken")
		}
	})
	return s, sum, n
}

func TestChanPipeline(t *testing.T) {
	hashes := map[uint64]bool{}
	for _, buf := range []int{0, 1, 5} {
		for strat := 0; strat < 5; strat++ {
			for seed := uint64(1); seed < 150; seed++ {
				a, sum, n := runPipeline(seed, strat, buf)
				b, _, _ := runPipeline(seed, strat, buf)
				if a.Failure != nil || a.Stuck || n != 12 || sum != (1+2+3+4)*3+4*(10+20) {
					t.Fatalf("buf %d strat %d seed %d: failure %v stuck %v n %d sum %d", buf, strat, seed, a.Failure, a.Stuck, n, sum)
				}
				if a.TraceHash() != b.TraceHash() || a.Steps() != b.Steps() {
					t.Fatalf("seed %d: nondeterministic", seed)
				}
				hashes[a.TraceHash()] = true
			}
		}
	}
	if len(hashes) < 300 {
		t.Fatalf("only %d distinct interleavings", len(hashes))
	}
}

func TestChanDeadlockAndClosedSend(t *testing.T) {
	s := chanSim(1, 0)
	s.Run(func() {
		c := make(chan int)
		simrt.Go(func() { simchan.Recv(c) })
		simrt.Go(func() { simchan.Recv(c) })
		simchan.Send(c, 1)
		var never chan int
		simchan.Recv(never)
	})
	if s.Failure == nil || s.Failure.Kind != simrt.FailDeadlock {
		t.Fatalf("want deadlock, got %v", s.Failure)
	}
	s = chanSim(2, 0)
	s.Run(func() {
		c := make(chan int)
		simrt.Go(func() { simchan.Close(c) })
		simchan.Send(c, 1)
	})
	if s.Failure == nil || s.Failure.Kind != simrt.FailPanic || !strings.Contains(s.Failure.Msg, "closed channel") {
		t.Fatalf("want send-on-closed panic, got %v", s.Failure)
	}
}

func TestChanPassThrough(t *testing.T) {
	c := make(chan int, 1)
	simchan.Send(c, 7)
	if v, ok := simchan.Recv2(c); v != 7 || !ok {
		t.Fatal("pass-through")
	}
	simchan.Close(c)
	for range simchan.Range(c) {
		t.Fatal("closed")
	}
	if i, _, _ := simchan.Select(true, simchan.R(make(chan int))); i != -1 {
		t.Fatal("default")
	}
}

type myIface interface{ M() }
type impl struct{}

func (impl) M() {}

func TestChanSendConversions(t *testing.T) {
	f := make(chan float64, 1)
	simchan.Send(f, 1)
	if <-f != 1.0 {
		t.Fatal("const")
	}
	i := make(chan myIface, 2)
	simchan.Send(i, impl{})
	simchan.Send(i, nil)
	if v := <-i; v == nil {
		t.Fatal("iface")
	}
	if v := <-i; v != nil {
		t.Fatal("nil iface")
	}
	e := make(chan struct{}, 1)
	simchan.Send(e, struct{}{})
	s := chanSim(1, 0)
	s.Run(func() {
		c := make(chan myIface, 1)
		simchan.Send(c, nil)
		if v, ok := simchan.Recv2(c); v != nil || !ok {
			s.Fail(simrt.FailInvariant, "nil through sim")
		}
	})
	if s.Failure != nil {
		t.Fatal(s.Failure)
	}
}

func TestTimers(t *testing.T) {
	s := chanSim(3, 0)
	var order []string
	s.Run(func() {
		slow := simtime.After(5 * time.Second)
		tk := simtime.NewTicker(time.Second)
		stopped := simtime.NewTimer(2 * time.Second)
		stopped.Stop()
		simtime.AfterFunc(1500*time.Millisecond, func() { order = append(order, "func") })
		ticks := 0
		for {
			switch i, _, _ := simchan.Select(false, simchan.R(slow), simchan.R(tk.C), simchan.R(stopped.C)); i {
			case 0:
				order = append(order, "slow")
				tk.Stop()
				return
			case 1:
				ticks++
				if ticks == 2 {
					order = append(order, "tick2")
				}
			case 2:
				order = append(order, "stopped-fired")
			}
		}
	})
	if s.Failure != nil || s.Stuck {
		t.Fatal(s.Failure, s.Stuck)
	}
	if got := strings.Join(order, ","); got != "func,tick2,slow" {
		t.Fatal(got)
	}
	if s.Now() < int64(5*time.Second) {
		t.Fatal("clock did not advance")
	}
}
