module verif.local/sim

go 1.23.0
