// Package simos is the simulated disk: a pass-through to the real file system on the
// run's scratch directory in which every operation is a scheduling point, can be the
// instant at which the simulated process dies (a write can be torn), and can fail with an
// injected errno. With no simulation running it is exactly package os.
package simos

import (
	"errors"
	"fmt"
	"io/fs"
	"math/rand/v2"
	"os"
	"path/filepath"
	"sort"
	"strings"
	"syscall"
	"time"

	"verif.local/sim/simrt"
)

var errnos = []syscall.Errno{syscall.ENOSPC, syscall.EIO, syscall.EACCES, syscall.EMFILE}
var errnoNames = []string{"ENOSPC", "EIO", "EACCES", "EMFILE"}

func short(p string) string {
	if i := strings.Index(p, "/proj/"); i >= 0 {
		return p[i+5:]
	}
	if len(p) > 40 {
		return "…" + p[len(p)-40:]
	}
	return p
}

// point is the yield + fault decision shared by every operation. A non-nil error is an
// injected fault: the operation must not be performed.
func point(op, path string) (*simrt.Sim, syscall.Errno) {
	s := simrt.Current()
	if s == nil {
		return nil, 0
	}
	s.Yield("os."+op, short(path))
	s.IOOps++
	if s.Cfg.IOErrFrom > 0 && s.IOOps >= s.Cfg.IOErrFrom {
		switch op {
		case "create", "createtemp", "write", "mkdir", "mkdirall", "mkdirtemp", "link", "symlink":
			s.FaultsHit["disk_full_ENOSPC"]++
			return s, syscall.ENOSPC
		}
	}
	if e, ok := s.Cfg.IOErrAt[s.IOOps]; ok {
		k := e % len(errnos)
		s.FaultsHit["ioerr_"+errnoNames[k]]++
		return s, errnos[k]
	}
	if s.Cfg.IOErrPerMille > 0 && s.Cfg.Fault.Chance(s.Cfg.IOErrPerMille, 1000) {
		k := s.Cfg.Fault.Intn(len(errnos))
		s.FaultsHit["ioerr_"+errnoNames[k]]++
		return s, errnos[k]
	}
	return s, 0
}

func pathErr(op, path string, e syscall.Errno) error {
	return &fs.PathError{Op: op, Path: path, Err: e}
}

// File wraps *os.File; the methods dawn uses on files are scheduling points.
type File struct {
	*os.File
	path string
}

func wrap(f *os.File, path string, s *simrt.Sim) *File {
	if f == nil {
		return nil
	}
	sf := &File{File: f, path: path}
	if s != nil {
		s.Closers = append(s.Closers, func() { f.Close() })
	}
	return sf
}

func Open(name string) (*File, error) { return OpenFile(name, os.O_RDONLY, 0) }

func Create(name string) (*File, error) {
	return OpenFile(name, os.O_RDWR|os.O_CREATE|os.O_TRUNC, 0666)
}

func OpenFile(name string, flag int, perm os.FileMode) (*File, error) {
	op := "open"
	if flag&os.O_CREATE != 0 {
		op = "create"
	}
	s, e := point(op, name)
	if e != 0 {
		return nil, pathErr("open", name, e)
	}
	f, err := os.OpenFile(name, flag, perm)
	if err != nil {
		return nil, err
	}
	return wrap(f, name, s), nil
}

func tempName(s *simrt.Sim, pattern string) (prefix, suffix string) {
	prefix, suffix = pattern, ""
	if i := strings.LastIndexByte(pattern, '*'); i >= 0 {
		prefix, suffix = pattern[:i], pattern[i+1:]
	}
	return
}

func CreateTemp(dir, pattern string) (*File, error) {
	s := simrt.Current()
	if s == nil {
		f, err := os.CreateTemp(dir, pattern)
		return wrap(f, "", nil), err
	}
	if dir == "" {
		dir = tempDir(s)
	}
	s, e := point("createtemp", dir)
	if e != 0 {
		return nil, pathErr("open", filepath.Join(dir, pattern), e)
	}
	prefix, suffix := tempName(s, pattern)
	for try := 0; try < 10000; try++ {
		s.TempSerial++
		name := filepath.Join(dir, fmt.Sprintf("%s%08d%s", prefix, s.TempSerial, suffix))
		f, err := os.OpenFile(name, os.O_RDWR|os.O_CREATE|os.O_EXCL, 0600)
		if errors.Is(err, fs.ErrExist) {
			continue
		}
		if err != nil {
			return nil, err
		}
		return wrap(f, name, s), nil
	}
	return nil, pathErr("createtemp", dir, syscall.EEXIST)
}

func tempDir(s *simrt.Sim) string {
	if s != nil && s.Cfg.TempDir != "" {
		return s.Cfg.TempDir
	}
	return os.TempDir()
}

func MkdirTemp(dir, pattern string) (string, error) {
	s := simrt.Current()
	if s == nil {
		return os.MkdirTemp(dir, pattern)
	}
	if dir == "" {
		dir = tempDir(s)
	}
	s, e := point("mkdirtemp", dir)
	if e != 0 {
		return "", pathErr("mkdir", filepath.Join(dir, pattern), e)
	}
	prefix, suffix := tempName(s, pattern)
	for try := 0; try < 10000; try++ {
		s.TempSerial++
		name := filepath.Join(dir, fmt.Sprintf("%s%08d%s", prefix, s.TempSerial, suffix))
		err := os.Mkdir(name, 0700)
		if errors.Is(err, fs.ErrExist) {
			continue
		}
		if err != nil {
			return "", err
		}
		return name, nil
	}
	return "", pathErr("mkdirtemp", dir, syscall.EEXIST)
}

func Mkdir(name string, perm os.FileMode) error {
	if _, e := point("mkdir", name); e != 0 {
		return pathErr("mkdir", name, e)
	}
	return os.Mkdir(name, perm)
}

func MkdirAll(path string, perm os.FileMode) error {
	if _, e := point("mkdirall", path); e != 0 {
		return pathErr("mkdir", path, e)
	}
	return os.MkdirAll(path, perm)
}

func Rename(oldpath, newpath string) error {
	if _, e := point("rename", newpath); e != 0 {
		return &os.LinkError{Op: "rename", Old: oldpath, New: newpath, Err: e}
	}
	return os.Rename(oldpath, newpath)
}

func Link(oldname, newname string) error {
	if _, e := point("link", newname); e != 0 {
		return &os.LinkError{Op: "link", Old: oldname, New: newname, Err: e}
	}
	return os.Link(oldname, newname)
}

func Symlink(oldname, newname string) error {
	if _, e := point("symlink", newname); e != 0 {
		return &os.LinkError{Op: "symlink", Old: oldname, New: newname, Err: e}
	}
	return os.Symlink(oldname, newname)
}

func Remove(name string) error {
	if _, e := point("remove", name); e != 0 {
		return pathErr("remove", name, e)
	}
	return os.Remove(name)
}

func RemoveAll(path string) error {
	if _, e := point("removeall", path); e != 0 {
		return pathErr("unlinkat", path, e)
	}
	return os.RemoveAll(path)
}

func ReadFile(name string) ([]byte, error) {
	if _, e := point("readfile", name); e != 0 {
		return nil, pathErr("open", name, e)
	}
	return os.ReadFile(name)
}

func WriteFile(name string, data []byte, perm os.FileMode) error {
	f, err := OpenFile(name, os.O_WRONLY|os.O_CREATE|os.O_TRUNC, perm)
	if err != nil {
		return err
	}
	_, err = f.Write(data)
	if err1 := f.Close(); err1 != nil && err == nil {
		err = err1
	}
	return err
}

func ReadDir(name string) ([]os.DirEntry, error) {
	if _, e := point("readdir", name); e != 0 {
		return nil, pathErr("open", name, e)
	}
	return os.ReadDir(name)
}

func Stat(name string) (os.FileInfo, error) {
	if _, e := point("stat", name); e != 0 {
		return nil, pathErr("stat", name, e)
	}
	return os.Stat(name)
}

func Lstat(name string) (os.FileInfo, error) {
	if _, e := point("lstat", name); e != 0 {
		return nil, pathErr("lstat", name, e)
	}
	return os.Lstat(name)
}

func Truncate(name string, size int64) error {
	if _, e := point("truncate", name); e != 0 {
		return pathErr("truncate", name, e)
	}
	return os.Truncate(name, size)
}

func Chmod(name string, mode os.FileMode) error {
	if _, e := point("chmod", name); e != 0 {
		return pathErr("chmod", name, e)
	}
	return os.Chmod(name, mode)
}

func Chtimes(name string, atime, mtime time.Time) error {
	if _, e := point("chtimes", name); e != 0 {
		return pathErr("chtimes", name, e)
	}
	return os.Chtimes(name, atime, mtime)
}

// ---------------------------------------------------------------- File methods

func (f *File) Write(b []byte) (int, error) {
	s := simrt.Current()
	if s == nil {
		return f.File.Write(b)
	}
	s.Enter()
	if s.WillCrashNow() && s.Cfg.TornFrac > 0 && len(b) > 1 {
		n := len(b) * s.Cfg.TornFrac / 1000
		if n >= len(b) {
			n = len(b) - 1
		}
		if n > 0 {
			f.File.Write(b[:n])
		}
		s.FaultsHit["torn_write"]++
	}
	_, e := point("write", f.path)
	if e != 0 {
		// a failing write may still have written a prefix
		if n := len(b) / 2; n > 0 && e == syscall.ENOSPC {
			f.File.Write(b[:n])
			return n, pathErr("write", f.path, e)
		}
		return 0, pathErr("write", f.path, e)
	}
	if s.Cfg.SplitWrites && len(b) > 1 {
		h := len(b) / 2
		n1, err := f.File.Write(b[:h])
		if err != nil {
			return n1, err
		}
		s.Probe("split_write")
		s.Yield("os.write2", short(f.path))
		n2, err := f.File.Write(b[h:])
		return n1 + n2, err
	}
	return f.File.Write(b)
}

func (f *File) WriteString(str string) (int, error) { return f.Write([]byte(str)) }

func (f *File) Read(b []byte) (int, error) {
	if _, e := point("read", f.path); e != 0 {
		return 0, pathErr("read", f.path, e)
	}
	return f.File.Read(b)
}

func (f *File) Close() error {
	s := simrt.Current()
	if s != nil && s.Dead() {
		f.File.Close() // release the descriptor; no effect on stored data
		s.Enter()
	}
	if _, e := point("close", f.path); e != 0 {
		f.File.Close()
		return pathErr("close", f.path, e)
	}
	return f.File.Close()
}

func (f *File) Sync() error {
	if _, e := point("sync", f.path); e != 0 {
		return pathErr("sync", f.path, e)
	}
	return f.File.Sync()
}

func (f *File) Stat() (os.FileInfo, error) {
	if _, e := point("fstat", f.path); e != 0 {
		return nil, pathErr("stat", f.path, e)
	}
	return f.File.Stat()
}

// ReadDir with n <= 0 is the unsorted listing. Host order by default; with ReadDirPerm the
// order is a permutation that is a pure function of the host listing, so an unchanged
// directory always lists identically.
func (f *File) ReadDir(n int) ([]os.DirEntry, error) {
	s, e := point("freaddir", f.path)
	if e != 0 {
		return nil, pathErr("readdirent", f.path, e)
	}
	ents, err := f.File.ReadDir(n)
	if s != nil && s.Cfg.ReadDirPerm && n <= 0 && len(ents) > 1 {
		h := uint64(0xcbf29ce484222325)
		for _, e := range ents {
			h = simrt.MixString(h, e.Name())
		}
		sort.Slice(ents, func(i, j int) bool { return ents[i].Name() < ents[j].Name() })
		r := rand.New(rand.NewPCG(h, 17))
		r.Shuffle(len(ents), func(i, j int) { ents[i], ents[j] = ents[j], ents[i] })
		s.Probe("readdir_permuted")
	}
	return ents, err
}

// ---------------------------------------------------------------- filepath

func WalkDir(root string, fn fs.WalkDirFunc) error {
	if _, e := point("walkdir", root); e != 0 {
		return fn(root, nil, pathErr("lstat", root, e))
	}
	return filepath.WalkDir(root, fn)
}

func Walk(root string, fn filepath.WalkFunc) error {
	if _, e := point("walk", root); e != 0 {
		return fn(root, nil, pathErr("lstat", root, e))
	}
	return filepath.Walk(root, fn)
}

func Glob(pattern string) ([]string, error) {
	point("glob", pattern)
	return filepath.Glob(pattern)
}
