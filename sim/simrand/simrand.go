// Package simrand mirrors the top-level functions of math/rand (v1 and v2) that library
// code uses for tie-breaking; under a simulation values come from the Misc tape.
package simrand

import (
	"math/rand"

	"verif.local/sim/simrt"
)

func Intn(n int) int {
	if s := simrt.Current(); s != nil {
		s.Enter()
		return s.Cfg.Misc.Intn(n)
	}
	return rand.Intn(n)
}

func IntN(n int) int { return Intn(n) }
func Int63n(n int64) int64 {
	if s := simrt.Current(); s != nil && n <= 1<<30 {
		s.Enter()
		return int64(s.Cfg.Misc.Intn(int(n)))
	}
	return rand.Int63n(n)
}
func Int31n(n int32) int32 { return int32(Intn(int(n))) }
func Int() int             { return Intn(1 << 30) }
func Int63() int64         { return int64(Intn(1 << 30)) }
func Int31() int32         { return int32(Intn(1 << 30)) }
func Uint32() uint32       { return uint32(Intn(1 << 30)) }
func Float64() float64     { return float64(Intn(1<<30)) / (1 << 30) }
func Float32() float32     { return float32(Float64()) }

func Perm(n int) []int {
	p := make([]int, n)
	for i := range p {
		p[i] = i
	}
	Shuffle(n, func(i, j int) { p[i], p[j] = p[j], p[i] })
	return p
}

func Shuffle(n int, swap func(i, j int)) {
	if s := simrt.Current(); s != nil {
		s.Enter()
		for i := 0; i < n-1; i++ {
			j := i + s.Cfg.Misc.Intn(n-i)
			if j != i {
				swap(i, j)
			}
		}
		return
	}
	rand.Shuffle(n, swap)
}

func Seed(int64) {}
