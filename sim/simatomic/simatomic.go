// Package simatomic mirrors sync/atomic: every operation is a scheduling point under a
// simulation and the real atomic operation otherwise (and underneath).
package simatomic

import (
	"sync/atomic"
	"unsafe"

	"verif.local/sim/simrt"
)

func y(op string) {
	if s := simrt.Current(); s != nil {
		s.Yield("atomic."+op, "")
	}
}

type Pointer[T any] struct{ v atomic.Pointer[T] }

func (p *Pointer[T]) Load() *T       { y("Load"); return p.v.Load() }
func (p *Pointer[T]) Store(val *T)   { y("Store"); p.v.Store(val) }
func (p *Pointer[T]) Swap(new *T) *T { y("Swap"); return p.v.Swap(new) }
func (p *Pointer[T]) CompareAndSwap(old, new *T) bool {
	y("CompareAndSwap")
	return p.v.CompareAndSwap(old, new)
}

type Bool struct{ v atomic.Bool }

func (b *Bool) Load() bool         { y("Load"); return b.v.Load() }
func (b *Bool) Store(val bool)     { y("Store"); b.v.Store(val) }
func (b *Bool) Swap(new bool) bool { y("Swap"); return b.v.Swap(new) }
func (b *Bool) CompareAndSwap(old, new bool) bool {
	y("CompareAndSwap")
	return b.v.CompareAndSwap(old, new)
}

type Value struct{ v atomic.Value }

func (v *Value) Load() any        { y("Load"); return v.v.Load() }
func (v *Value) Store(val any)    { y("Store"); v.v.Store(val) }
func (v *Value) Swap(new any) any { y("Swap"); return v.v.Swap(new) }
func (v *Value) CompareAndSwap(old, new any) bool {
	y("CompareAndSwap")
	return v.v.CompareAndSwap(old, new)
}

func LoadPointer(addr *unsafe.Pointer) unsafe.Pointer { y("Load"); return atomic.LoadPointer(addr) }
func StorePointer(addr *unsafe.Pointer, val unsafe.Pointer) {
	y("Store")
	atomic.StorePointer(addr, val)
}
func SwapPointer(addr *unsafe.Pointer, new unsafe.Pointer) unsafe.Pointer {
	y("Swap")
	return atomic.SwapPointer(addr, new)
}
func CompareAndSwapPointer(addr *unsafe.Pointer, old, new unsafe.Pointer) bool {
	y("CompareAndSwap")
	return atomic.CompareAndSwapPointer(addr, old, new)
}

type Int32 struct{ v atomic.Int32 }

func (x *Int32) Load() int32           { y("Load"); return x.v.Load() }
func (x *Int32) Store(val int32)       { y("Store"); x.v.Store(val) }
func (x *Int32) Swap(new int32) int32  { y("Swap"); return x.v.Swap(new) }
func (x *Int32) Add(delta int32) int32 { y("Add"); return x.v.Add(delta) }
func (x *Int32) And(mask int32) int32  { y("And"); return x.v.And(mask) }
func (x *Int32) Or(mask int32) int32   { y("Or"); return x.v.Or(mask) }
func (x *Int32) CompareAndSwap(old, new int32) bool {
	y("CompareAndSwap")
	return x.v.CompareAndSwap(old, new)
}

func LoadInt32(addr *int32) int32             { y("Load"); return atomic.LoadInt32(addr) }
func StoreInt32(addr *int32, val int32)       { y("Store"); atomic.StoreInt32(addr, val) }
func SwapInt32(addr *int32, new int32) int32  { y("Swap"); return atomic.SwapInt32(addr, new) }
func AddInt32(addr *int32, delta int32) int32 { y("Add"); return atomic.AddInt32(addr, delta) }
func AndInt32(addr *int32, mask int32) int32  { y("And"); return atomic.AndInt32(addr, mask) }
func OrInt32(addr *int32, mask int32) int32   { y("Or"); return atomic.OrInt32(addr, mask) }
func CompareAndSwapInt32(addr *int32, old, new int32) bool {
	y("CompareAndSwap")
	return atomic.CompareAndSwapInt32(addr, old, new)
}

type Int64 struct{ v atomic.Int64 }

func (x *Int64) Load() int64           { y("Load"); return x.v.Load() }
func (x *Int64) Store(val int64)       { y("Store"); x.v.Store(val) }
func (x *Int64) Swap(new int64) int64  { y("Swap"); return x.v.Swap(new) }
func (x *Int64) Add(delta int64) int64 { y("Add"); return x.v.Add(delta) }
func (x *Int64) And(mask int64) int64  { y("And"); return x.v.And(mask) }
func (x *Int64) Or(mask int64) int64   { y("Or"); return x.v.Or(mask) }
func (x *Int64) CompareAndSwap(old, new int64) bool {
	y("CompareAndSwap")
	return x.v.CompareAndSwap(old, new)
}

func LoadInt64(addr *int64) int64             { y("Load"); return atomic.LoadInt64(addr) }
func StoreInt64(addr *int64, val int64)       { y("Store"); atomic.StoreInt64(addr, val) }
func SwapInt64(addr *int64, new int64) int64  { y("Swap"); return atomic.SwapInt64(addr, new) }
func AddInt64(addr *int64, delta int64) int64 { y("Add"); return atomic.AddInt64(addr, delta) }
func AndInt64(addr *int64, mask int64) int64  { y("And"); return atomic.AndInt64(addr, mask) }
func OrInt64(addr *int64, mask int64) int64   { y("Or"); return atomic.OrInt64(addr, mask) }
func CompareAndSwapInt64(addr *int64, old, new int64) bool {
	y("CompareAndSwap")
	return atomic.CompareAndSwapInt64(addr, old, new)
}

type Uint32 struct{ v atomic.Uint32 }

func (x *Uint32) Load() uint32            { y("Load"); return x.v.Load() }
func (x *Uint32) Store(val uint32)        { y("Store"); x.v.Store(val) }
func (x *Uint32) Swap(new uint32) uint32  { y("Swap"); return x.v.Swap(new) }
func (x *Uint32) Add(delta uint32) uint32 { y("Add"); return x.v.Add(delta) }
func (x *Uint32) And(mask uint32) uint32  { y("And"); return x.v.And(mask) }
func (x *Uint32) Or(mask uint32) uint32   { y("Or"); return x.v.Or(mask) }
func (x *Uint32) CompareAndSwap(old, new uint32) bool {
	y("CompareAndSwap")
	return x.v.CompareAndSwap(old, new)
}

func LoadUint32(addr *uint32) uint32              { y("Load"); return atomic.LoadUint32(addr) }
func StoreUint32(addr *uint32, val uint32)        { y("Store"); atomic.StoreUint32(addr, val) }
func SwapUint32(addr *uint32, new uint32) uint32  { y("Swap"); return atomic.SwapUint32(addr, new) }
func AddUint32(addr *uint32, delta uint32) uint32 { y("Add"); return atomic.AddUint32(addr, delta) }
func AndUint32(addr *uint32, mask uint32) uint32  { y("And"); return atomic.AndUint32(addr, mask) }
func OrUint32(addr *uint32, mask uint32) uint32   { y("Or"); return atomic.OrUint32(addr, mask) }
func CompareAndSwapUint32(addr *uint32, old, new uint32) bool {
	y("CompareAndSwap")
	return atomic.CompareAndSwapUint32(addr, old, new)
}

type Uint64 struct{ v atomic.Uint64 }

func (x *Uint64) Load() uint64            { y("Load"); return x.v.Load() }
func (x *Uint64) Store(val uint64)        { y("Store"); x.v.Store(val) }
func (x *Uint64) Swap(new uint64) uint64  { y("Swap"); return x.v.Swap(new) }
func (x *Uint64) Add(delta uint64) uint64 { y("Add"); return x.v.Add(delta) }
func (x *Uint64) And(mask uint64) uint64  { y("And"); return x.v.And(mask) }
func (x *Uint64) Or(mask uint64) uint64   { y("Or"); return x.v.Or(mask) }
func (x *Uint64) CompareAndSwap(old, new uint64) bool {
	y("CompareAndSwap")
	return x.v.CompareAndSwap(old, new)
}

func LoadUint64(addr *uint64) uint64              { y("Load"); return atomic.LoadUint64(addr) }
func StoreUint64(addr *uint64, val uint64)        { y("Store"); atomic.StoreUint64(addr, val) }
func SwapUint64(addr *uint64, new uint64) uint64  { y("Swap"); return atomic.SwapUint64(addr, new) }
func AddUint64(addr *uint64, delta uint64) uint64 { y("Add"); return atomic.AddUint64(addr, delta) }
func AndUint64(addr *uint64, mask uint64) uint64  { y("And"); return atomic.AndUint64(addr, mask) }
func OrUint64(addr *uint64, mask uint64) uint64   { y("Or"); return atomic.OrUint64(addr, mask) }
func CompareAndSwapUint64(addr *uint64, old, new uint64) bool {
	y("CompareAndSwap")
	return atomic.CompareAndSwapUint64(addr, old, new)
}

type Uintptr struct{ v atomic.Uintptr }

func (x *Uintptr) Load() uintptr             { y("Load"); return x.v.Load() }
func (x *Uintptr) Store(val uintptr)         { y("Store"); x.v.Store(val) }
func (x *Uintptr) Swap(new uintptr) uintptr  { y("Swap"); return x.v.Swap(new) }
func (x *Uintptr) Add(delta uintptr) uintptr { y("Add"); return x.v.Add(delta) }
func (x *Uintptr) And(mask uintptr) uintptr  { y("And"); return x.v.And(mask) }
func (x *Uintptr) Or(mask uintptr) uintptr   { y("Or"); return x.v.Or(mask) }
func (x *Uintptr) CompareAndSwap(old, new uintptr) bool {
	y("CompareAndSwap")
	return x.v.CompareAndSwap(old, new)
}

func LoadUintptr(addr *uintptr) uintptr              { y("Load"); return atomic.LoadUintptr(addr) }
func StoreUintptr(addr *uintptr, val uintptr)        { y("Store"); atomic.StoreUintptr(addr, val) }
func SwapUintptr(addr *uintptr, new uintptr) uintptr { y("Swap"); return atomic.SwapUintptr(addr, new) }
func AddUintptr(addr *uintptr, delta uintptr) uintptr {
	y("Add")
	return atomic.AddUintptr(addr, delta)
}
func AndUintptr(addr *uintptr, mask uintptr) uintptr { y("And"); return atomic.AndUintptr(addr, mask) }
func OrUintptr(addr *uintptr, mask uintptr) uintptr  { y("Or"); return atomic.OrUintptr(addr, mask) }
func CompareAndSwapUintptr(addr *uintptr, old, new uintptr) bool {
	y("CompareAndSwap")
	return atomic.CompareAndSwapUintptr(addr, old, new)
}
