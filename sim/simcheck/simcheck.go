// Package simcheck is the worker side of every check: seeded exploration over generated
// scenarios, minimisation of a failing (scenario, tapes) pair, replay files, and the
// counters the driver turns into evidence.
package simcheck

import (
	"encoding/binary"
	"encoding/json"
	"fmt"
	"math/rand/v2"
	"os"
	"path/filepath"
	"runtime/debug"
	"sort"
	"strconv"
	"strings"
	"time"

	"verif.local/sim/simrt"
)

// Violation is a property violation found by an oracle.
type Violation struct {
	Class string `json:"class"`
	Msg   string `json:"msg"`
	// Scenario, if non-nil, replaces the scenario in the replay file (a narrowed version:
	// e.g. the single crash point out of an enumeration).
	Scenario any `json:"-"`
	// Fatal: the worker process is no longer usable (a goroutine of the code under test is
	// spinning); the violation is saved without minimisation and the worker stops.
	Fatal bool `json:"-"`
	// NoMinimise: the failure depends on something the simulator does not own (garbage
	// collection under the gc-hammer option): a candidate that happens not to fail says
	// nothing, so the scenario is saved as found.
	NoMinimise bool `json:"-"`
}

func V(class, format string, a ...any) *Violation {
	return &Violation{Class: class, Msg: fmt.Sprintf(format, a...)}
}

// EngineError marks a failure of the machinery itself (never reported as a violation).
const EngineError = "ENGINE-ERROR"

// Ctx is what Exec gets: tapes, stats and options.
type Ctx struct {
	Tapes *simrt.TapeSet
	St    *Stats
	Trace bool // collect decoded traces (replay / sample)
	Tier  string
	// TraceOut receives decoded trace lines when Trace is set.
	TraceOut []string
}

// Sim accounts a finished simulated process.
func (c *Ctx) Sim(s *simrt.Sim, scenarioHash uint64, strategy int) {
	st := c.St
	st.SimRuns++
	st.Steps += int64(s.Steps())
	st.Switches += int64(s.Switches)
	st.ChoicePoints += int64(s.ChoicePoints)
	st.SimTimeNs += s.Now()
	if strategy >= 0 && strategy < len(simrt.StrategyNames) {
		st.Strategies[simrt.StrategyNames[strategy]]++
	}
	faults := 0
	for k, v := range s.FaultsHit {
		st.Faults[k] += v
		faults += v
	}
	if s.Crashed {
		st.Faults["process_crash"]++
		faults++
	}
	for k, v := range s.Probes {
		st.Probes[k] += v
	}
	h := simrt.Mix(scenarioHash, s.TraceHash())
	st.addHash(st.interleavings, s.TraceHash())
	if s.ChoicePoints > 0 || faults > 0 {
		st.addHash(st.distinct, h)
	}
	if c.Trace {
		c.TraceOut = append(c.TraceOut, s.Trace...)
	}
	s.Cleanup()
}

type Stats struct {
	Evaluations   int            `json:"evaluations"`
	SimRuns       int            `json:"sim_runs"`
	Steps         int64          `json:"steps"`
	Switches      int64          `json:"switches"`
	ChoicePoints  int64          `json:"choice_points"`
	SimTimeNs     int64          `json:"sim_time_ns"`
	Faults        map[string]int `json:"faults"`
	Probes        map[string]int `json:"probes"`
	Strategies    map[string]int `json:"strategies"`
	Counters      map[string]int `json:"counters"`
	Samples       []any          `json:"samples"`
	Distinct      int            `json:"distinct"`
	Interleavings int            `json:"interleavings"`

	distinct      map[uint64]struct{}
	interleavings map[uint64]struct{}
}

const hashCap = 400000

func (st *Stats) addHash(m map[uint64]struct{}, h uint64) {
	if len(m) < hashCap {
		m[h] = struct{}{}
	}
}

func (st *Stats) Count(name string, n int) { st.Counters[name] += n }

// Distinct adds a hash to the distinct-nontrivial set directly (for engines whose cases
// are not single simulated runs).
func (st *Stats) AddDistinct(h uint64) { st.addHash(st.distinct, h) }

// NewStats is for harnesses that account outside Main (a child process).
func NewStats() *Stats { return newStats() }

func newStats() *Stats {
	return &Stats{Faults: map[string]int{}, Probes: map[string]int{}, Strategies: map[string]int{}, Counters: map[string]int{},
		distinct: map[uint64]struct{}{}, interleavings: map[uint64]struct{}{}}
}

// Prop describes one property's check.
type Prop struct {
	ID string
	// Gen makes a JSON-able scenario (a pointer) from the case's generator.
	Gen func(r *rand.Rand, tier string) any
	// New returns an empty scenario for decoding a replay file.
	New func() any
	// Exec runs one case; nil means the property held on everything the case explored.
	Exec func(sc any, c *Ctx) *Violation
	// Simplify returns strictly simpler variants of sc (may be nil).
	Simplify func(sc any) []any
	// Fixed returns deterministic scenarios run before the random ones (may be nil).
	Fixed func(tier string) []any
}

type ReplayFile struct {
	Property string                    `json:"property"`
	Engine   string                    `json:"engine,omitempty"`
	Class    string                    `json:"class"`
	Msg      string                    `json:"msg"`
	Seed     uint64                    `json:"seed"`
	Tier     string                    `json:"tier"`
	Regen    bool                      `json:"regenerate_scenario_from_seed,omitempty"`
	SeedTape bool                      `json:"tapes_from_seed,omitempty"` // draw the tapes from the seed (the run died before it could record them)
	FixedIdx int                       `json:"fixed_index,omitempty"`
	Scenario json.RawMessage           `json:"scenario"`
	Tapes    map[string]simrt.TapeData `json:"tapes"`
	Shrink   string                    `json:"minimisation,omitempty"`
	Trace    []string                  `json:"trace,omitempty"`
}

type FoundViolation struct {
	Class  string `json:"class"`
	Msg    string `json:"msg"`
	Replay string `json:"replay"`
	Seed   uint64 `json:"seed"`
}

type Result struct {
	Property    string           `json:"property"`
	Worker      int              `json:"worker"`
	Stats       *Stats           `json:"stats"`
	Violations  []FoundViolation `json:"violations"`
	EngineError string           `json:"engine_error,omitempty"`
	WallS       float64          `json:"wall_s"`
	Completed   bool             `json:"completed"`
	HashFile    string           `json:"hash_file,omitempty"`
	ReplayClass string           `json:"replay_class,omitempty"`
	ReplayMsg   string           `json:"replay_msg,omitempty"`
}

func envInt(name string, def int) int {
	if v := os.Getenv(name); v != "" {
		if n, err := strconv.Atoi(v); err == nil {
			return n
		}
	}
	return def
}

func hashScenario(sc any) uint64 {
	b, _ := json.Marshal(sc)
	return simrt.MixString(0x1234, string(b))
}

// ScenarioHash is exported for engines.
func ScenarioHash(sc any) uint64 { return hashScenario(sc) }

func propSeed(base uint64, prop string, i int) uint64 {
	return simrt.Mix(simrt.MixString(base, prop), uint64(i))
}

// Main is the worker entry point, called from a TestVerifWorker in each engine.
// It returns the process exit code.
func Main(props map[string]*Prop) int {
	debug.SetMaxStack(256 << 20)
	id := os.Getenv("VERIF_PROP")
	p, ok := props[id]
	if !ok {
		fmt.Fprintf(os.Stderr, "simcheck: unknown property %q\n", id)
		return 2
	}
	out := os.Getenv("VERIF_OUT")
	res := &Result{Property: id, Worker: envInt("VERIF_WORKER", 0), Stats: newStats()}
	start := time.Now()
	code := 0
	defer func() {
		res.WallS = time.Since(start).Seconds()
		res.Stats.Distinct = len(res.Stats.distinct)
		res.Stats.Interleavings = len(res.Stats.interleavings)
		if out != "" {
			hf := out + ".hashes"
			writeHashes(hf, res.Stats.distinct)
			res.HashFile = hf
			b, _ := json.MarshalIndent(res, "", " ")
			os.WriteFile(out, b, 0644)
		}
	}()

	if rf := os.Getenv("VERIF_REPLAY"); rf != "" {
		code = replay(p, rf, res)
		res.Completed = true
		return code
	}

	base := uint64(envInt("VERIF_SEED", 1))
	tier := os.Getenv("VERIF_TIER")
	if tier == "" {
		tier = "quick"
	}
	worker, nworkers := envInt("VERIF_WORKER", 0), envInt("VERIF_NWORKERS", 1)
	cases := envInt("VERIF_CASES", 100)
	deadline := start.Add(time.Duration(envInt("VERIF_DEADLINE_S", 120)) * time.Second)
	replayDir := os.Getenv("VERIF_REPLAY_DIR")
	journal := out + ".journal"
	maxViol := envInt("VERIF_MAX_VIOLATIONS", 2)

	var fixed []any
	if p.Fixed != nil {
		fixed = p.Fixed(tier)
	}
	total := len(fixed) + cases
	seenClass := map[string]bool{}
	fallback := map[string]FoundViolation{} // per class: an instance that did not fail again when re-run at once
	unreproduced := map[string]int{}
	knownClass := map[string]bool{}
	for _, k := range strings.Split(os.Getenv("VERIF_KNOWN_CLASSES"), ",") {
		if k != "" {
			knownClass[k] = true
		}
	}
	unlisted := 0
	for i := worker; i < total; i += nworkers {
		if time.Now().After(deadline) {
			res.Stats.Count("stopped_at_deadline", 1)
			break
		}
		seed := propSeed(base, id, i)
		var sc any
		fixedIdx := -1
		if i < len(fixed) {
			sc = fixed[i]
			fixedIdx = i
		} else {
			r := rand.New(rand.NewPCG(seed, 0x5eed))
			sc = p.Gen(r, tier)
		}
		if out != "" {
			scj, _ := json.Marshal(sc)
			os.WriteFile(journal, []byte(fmt.Sprintf(`{"property":%q,"seed":%d,"tier":%q,"index":%d,"fixed_index":%d,"scenario":%s}`, id, seed, tier, i, fixedIdx, scj)), 0644)
		}
		c := &Ctx{Tapes: simrt.NewTapeSet(seed, nil), St: res.Stats, Tier: tier}
		v := p.Exec(sc, c)
		res.Stats.Evaluations++
		if len(res.Stats.Samples) < 2 && worker == 0 {
			res.Stats.Samples = append(res.Stats.Samples, map[string]any{"seed": seed, "scenario": sc})
		}
		if v == nil {
			continue
		}
		if v.Class == EngineError {
			res.EngineError = v.Msg
			code = 2
			return code
		}
		if v.Fatal {
			fsc := sc
			if v.Scenario != nil {
				fsc = v.Scenario
			}
			raw, _ := json.Marshal(fsc)
			rf := &ReplayFile{Property: p.ID, Engine: os.Getenv("VERIF_ENGINE"), Class: v.Class, Msg: v.Msg, Seed: seed, Tier: tier, Scenario: raw,
				Tapes: c.Tapes.Snapshot(), Shrink: "not minimised: the worker had to stop"}
			path := ""
			if replayDir != "" {
				os.MkdirAll(replayDir, 0755)
				path = filepath.Join(replayDir, fmt.Sprintf("%s-%s%d.json", p.ID, os.Getenv("VERIF_ENGINE"), seed))
				b, _ := json.MarshalIndent(rf, "", " ")
				os.WriteFile(path, b, 0644)
			}
			res.Violations = append(res.Violations, FoundViolation{Class: v.Class, Msg: v.Msg, Replay: path, Seed: seed})
			res.Completed = true
			if out != "" {
				os.Remove(journal)
			}
			return 1
		}
		if knownClass[v.Class] {
			res.Stats.Count("known_finding_hits", 1)
		}
		if seenClass[v.Class] {
			res.Stats.Count("violations_same_class_not_minimised", 1)
			continue
		}
		fv, reproduced := minimiseAndSave(p, sc, c, v, seed, tier, replayDir, deadline)
		if !reproduced && !knownClass[v.Class] && unreproduced[v.Class] < 40 {
			// Running the same scenario on the same tapes again, right away, did not fail: what
			// failed depends on something outside the scenario (state that the code under test
			// keeps per OS process and that earlier cases of this worker left behind, or the
			// garbage collector). Such an instance is kept as a fall-back only - if no instance
			// of its class reproduces, it is reported and the driver's replay decides - and the
			// search for a reproducible one goes on.
			res.Stats.Count("violations_not_reproduced_in_process", 1)
			unreproduced[v.Class]++
			if _, ok := fallback[v.Class]; !ok {
				fallback[v.Class] = fv
			}
			continue
		}
		seenClass[v.Class] = true
		res.Violations = append(res.Violations, fv)
		if knownClass[v.Class] {
			continue // listed in known_findings.json: reported once, exploration goes on
		}
		code = 1
		unlisted++
		if unlisted >= maxViol {
			break
		}
	}
	for class, fv := range fallback {
		if !seenClass[class] {
			res.Violations = append(res.Violations, fv)
			code = 1
		}
	}
	if out != "" {
		os.Remove(journal)
	}
	res.Completed = true
	return code
}

func writeHashes(path string, m map[uint64]struct{}) {
	buf := make([]byte, 0, 8*len(m))
	for h := range m {
		buf = binary.LittleEndian.AppendUint64(buf, h)
	}
	os.WriteFile(path, buf, 0644)
}

func cloneJSON(p *Prop, sc any) any {
	b, _ := json.Marshal(sc)
	n := p.New()
	json.Unmarshal(b, n)
	return n
}

func minimiseAndSave(p *Prop, sc any, c *Ctx, v *Violation, seed uint64, tier, dir string, deadline time.Time) (FoundViolation, bool) {
	if v.Scenario != nil {
		sc = v.Scenario
	}
	tapes := c.Tapes.Snapshot()
	class := v.Class
	budget := time.Now().Add(40 * time.Second)
	if budget.After(deadline.Add(30 * time.Second)) {
		budget = deadline.Add(30 * time.Second)
	}
	scratch := newStats()
	try := func(cand any, tp map[string]simrt.TapeData, fresh uint64) (*Violation, map[string]simrt.TapeData) {
		var ts *simrt.TapeSet
		if tp != nil {
			ts = simrt.NewTapeSet(seed, tp)
		} else {
			ts = simrt.NewTapeSet(fresh, nil)
		}
		cc := &Ctx{Tapes: ts, St: scratch, Tier: tier}
		nv := p.Exec(cand, cc)
		if nv != nil && nv.Class == class {
			if nv.Scenario != nil {
				nv2 := *nv
				return &nv2, ts.Snapshot()
			}
			return nv, ts.Snapshot()
		}
		return nil, nil
	}
	steps, accepted := 0, 0
	// make sure the recorded tapes reproduce it at all
	reproduced := false
	if nv, tp := try(sc, tapes, 0); nv != nil {
		tapes = tp
		v = nv
		reproduced = true
	}
	if v.NoMinimise {
		budget = time.Now()
	}
	if p.Simplify != nil && !v.NoMinimise {
		progress := true
		for progress && time.Now().Before(budget) {
			progress = false
			for _, cand := range p.Simplify(cloneJSON(p, sc)) {
				if time.Now().After(budget) {
					break
				}
				steps++
				if nv, tp := try(cand, tapes, 0); nv != nil {
					sc, tapes, v, progress = cand, tp, nv, true
					if nv.Scenario != nil {
						sc = nv.Scenario
					}
					accepted++
					break
				}
				found := false
				for k := uint64(1); k <= 2 && !found; k++ {
					if nv, tp := try(cand, nil, simrt.Mix(seed, k)); nv != nil {
						sc, tapes, v, progress, found = cand, tp, nv, true, true
						if nv.Scenario != nil {
							sc = nv.Scenario
						}
						accepted++
					}
				}
				if found {
					break
				}
			}
		}
	}
	// tape minimisation: zero whole tapes, then truncate
	names := make([]string, 0, len(tapes))
	for n := range tapes {
		names = append(names, n)
	}
	sort.Strings(names)
	for _, n := range names {
		if time.Now().After(budget) {
			break
		}
		cand := copyTapes(tapes)
		delete(cand, n)
		steps++
		if nv, tp := try(sc, cand, 0); nv != nil {
			tapes, v = tp, nv
			accepted++
			continue
		}
		for cut := len(tapes[n]) / 2; cut >= 1 && time.Now().Before(budget); cut /= 2 {
			cur := tapes[n]
			if len(cur) <= cut {
				continue
			}
			cand := copyTapes(tapes)
			cand[n] = append(simrt.TapeData{}, cur[:len(cur)-cut]...)
			steps++
			if nv, tp := try(sc, cand, 0); nv != nil {
				tapes, v = tp, nv
				accepted++
			}
		}
	}
	// final run with a decoded trace
	cc := &Ctx{Tapes: simrt.NewTapeSet(seed, tapes), St: scratch, Tier: tier, Trace: true}
	fv := p.Exec(sc, cc)
	if fv != nil && fv.Class == class {
		v = fv
		if fv.Scenario != nil {
			sc = fv.Scenario
		}
	}
	raw, _ := json.Marshal(sc)
	rf := &ReplayFile{Property: p.ID, Engine: os.Getenv("VERIF_ENGINE"), Class: v.Class, Msg: v.Msg, Seed: seed, Tier: tier, Scenario: raw, Tapes: tapes,
		Shrink: fmt.Sprintf("%d candidates tried, %d accepted", steps, accepted), Trace: tail(cc.TraceOut, 400)}
	path := ""
	if dir != "" {
		os.MkdirAll(dir, 0755)
		path = filepath.Join(dir, fmt.Sprintf("%s-%s%d.json", p.ID, os.Getenv("VERIF_ENGINE"), seed))
		b, _ := json.MarshalIndent(rf, "", " ")
		os.WriteFile(path, b, 0644)
	}
	return FoundViolation{Class: v.Class, Msg: v.Msg, Replay: path, Seed: seed}, reproduced
}

func tail(s []string, n int) []string {
	if len(s) > n {
		return s[len(s)-n:]
	}
	return s
}

func copyTapes(t map[string]simrt.TapeData) map[string]simrt.TapeData {
	out := map[string]simrt.TapeData{}
	for k, v := range t {
		out[k] = v
	}
	return out
}

func replay(p *Prop, path string, res *Result) int {
	b, err := os.ReadFile(path)
	if err != nil {
		res.EngineError = err.Error()
		return 2
	}
	var rf ReplayFile
	if err := json.Unmarshal(b, &rf); err != nil {
		res.EngineError = err.Error()
		return 2
	}
	tier := rf.Tier
	if tier == "" {
		tier = "quick"
	}
	var sc any
	var ts *simrt.TapeSet
	if rf.Regen {
		if rf.FixedIdx >= 0 && p.Fixed != nil && rf.FixedIdx < len(p.Fixed(tier)) {
			sc = p.Fixed(tier)[rf.FixedIdx]
		} else {
			sc = p.Gen(rand.New(rand.NewPCG(rf.Seed, 0x5eed)), tier)
		}
		ts = simrt.NewTapeSet(rf.Seed, nil)
	} else {
		sc = p.New()
		if err := json.Unmarshal(rf.Scenario, sc); err != nil {
			res.EngineError = "decoding scenario: " + err.Error()
			return 2
		}
		tapes := rf.Tapes
		if tapes == nil {
			tapes = map[string]simrt.TapeData{}
		}
		ts = simrt.NewTapeSet(rf.Seed, tapes)
		if rf.SeedTape {
			ts = simrt.NewTapeSet(rf.Seed, nil)
		}
	}
	c := &Ctx{Tapes: ts, St: res.Stats, Tier: tier, Trace: true}
	v := p.Exec(sc, c)
	res.Stats.Evaluations++
	if v == nil {
		fmt.Println("REPLAY-OK: the property held on this replay")
		return 0
	}
	if v.Class == EngineError {
		res.EngineError = v.Msg
		return 2
	}
	res.ReplayClass, res.ReplayMsg = v.Class, v.Msg
	fmt.Printf("REPLAY-VIOLATION property=%s class=%s msg=%s\n", p.ID, v.Class, strings.ReplaceAll(v.Msg, "\n", " "))
	if os.Getenv("VERIF_VERBOSE") != "" {
		lines := tail(c.TraceOut, 400)
		if os.Getenv("VERIF_VERBOSE") == "head" && len(c.TraceOut) > 400 {
			lines = c.TraceOut[:400]
		}
		if os.Getenv("VERIF_VERBOSE") == "all" {
			lines = c.TraceOut
		}
		for _, l := range lines {
			fmt.Println("  " + l)
		}
	}
	return 1
}
