package sim_test

import (
	"testing"

	"verif.local/sim/simrt"
	"verif.local/sim/simsync"
)

func runCounter(seed uint64, strat int, crashAt int) (*simrt.Sim, int) {
	ts := simrt.NewTapeSet(seed, nil)
	s := simrt.New(simrt.Config{Sched: ts.Get("s"), Misc: ts.Get("m"), Strategy: strat, StickyNum: 80, PCTDepth: 2, CrashAt: crashAt})
	total := 0
	s.Run(func() {
		var mu simsync.Mutex
		var wg simsync.WaitGroup
		c := simsync.NewCond(&mu)
		ready := false
		for i := 0; i < 4; i++ {
			wg.Add(1)
			simrt.Go(func() {
				defer wg.Done()
				mu.Lock()
				defer mu.Unlock()
				for !ready {
					c.Wait()
				}
				total++
			})
		}
		mu.Lock()
		ready = true
		mu.Unlock()
		c.Broadcast()
		wg.Wait()
	})
	return s, total
}

func TestDeterminism(t *testing.T) {
	hashes := map[uint64]bool{}
	for strat := 0; strat < 5; strat++ {
		for seed := uint64(1); seed < 200; seed++ {
			a, ta := runCounter(seed, strat, 0)
			b, tb := runCounter(seed, strat, 0)
			if a.Failure != nil || ta != 4 || tb != 4 {
				t.Fatalf("seed %d strat %d: failure %v total %d", seed, strat, a.Failure, ta)
			}
			if a.TraceHash() != b.TraceHash() || a.Steps() != b.Steps() {
				t.Fatalf("seed %d: nondeterministic", seed)
			}
			hashes[a.TraceHash()] = true
		}
	}
	if len(hashes) < 50 {
		t.Fatalf("only %d distinct interleavings", len(hashes))
	}
	t.Logf("%d distinct interleavings", len(hashes))
}

func TestCrashEverywhere(t *testing.T) {
	a, _ := runCounter(7, simrt.StratUniform, 0)
	for k := 1; k <= a.Steps(); k++ {
		s, _ := runCounter(7, simrt.StratUniform, k)
		if s.Stuck {
			t.Fatalf("stuck at crash %d", k)
		}
		if !s.Crashed && k < a.Steps()-8 {
			t.Fatalf("no crash at %d/%d", k, a.Steps())
		}
		if s.Failure != nil {
			t.Fatalf("crash %d: unexpected failure %v", k, s.Failure)
		}
	}
}

func TestDeadlock(t *testing.T) {
	s := simrt.New(simrt.Config{})
	s.Run(func() {
		var mu simsync.Mutex
		mu.Lock()
		mu.Lock()
	})
	if s.Failure == nil || s.Failure.Kind != simrt.FailDeadlock {
		t.Fatalf("expected deadlock, got %v", s.Failure)
	}
	s = simrt.New(simrt.Config{})
	s.Run(func() {
		var a, b simsync.Mutex
		var wg simsync.WaitGroup
		wg.Add(2)
		simrt.Go(func() {
			a.Lock()
			simrt.Gosched()
			b.Lock()
			b.Unlock()
			a.Unlock()
			wg.Done()
		})
		simrt.Go(func() {
			b.Lock()
			simrt.Gosched()
			a.Lock()
			a.Unlock()
			b.Unlock()
			wg.Done()
		})
		wg.Wait()
	})
	// schedule all-zeros: g0 keeps running until it blocks; then g1 runs to Gosched...; ABBA needs a switch
	t.Logf("abba with boring schedule: %v", s.Failure)
	found := false
	for seed := uint64(1); seed < 50 && !found; seed++ {
		ts := simrt.NewTapeSet(seed, nil)
		s = simrt.New(simrt.Config{Sched: ts.Get("s")})
		s.Run(func() {
			var a, b simsync.Mutex
			var wg simsync.WaitGroup
			wg.Add(2)
			simrt.Go(func() { a.Lock(); b.Lock(); b.Unlock(); a.Unlock(); wg.Done() })
			simrt.Go(func() { b.Lock(); a.Lock(); a.Unlock(); b.Unlock(); wg.Done() })
			wg.Wait()
		})
		if s.Failure != nil && s.Failure.Kind == simrt.FailDeadlock {
			found = true
			// replay
			s2 := simrt.New(simrt.Config{Sched: simrt.NewReplayTape("s", ts.Get("s").Used())})
			s2.Run(func() {
				var a, b simsync.Mutex
				var wg simsync.WaitGroup
				wg.Add(2)
				simrt.Go(func() { a.Lock(); b.Lock(); b.Unlock(); a.Unlock(); wg.Done() })
				simrt.Go(func() { b.Lock(); a.Lock(); a.Unlock(); b.Unlock(); wg.Done() })
				wg.Wait()
			})
			if s2.Failure == nil || s2.TraceHash() != s.TraceHash() {
				t.Fatalf("replay diverged: %v", s2.Failure)
			}
		}
	}
	if !found {
		t.Fatal("ABBA deadlock never found")
	}
}

func TestPanicCaught(t *testing.T) {
	s := simrt.New(simrt.Config{})
	s.Run(func() {
		var wg simsync.WaitGroup
		wg.Add(1)
		simrt.Go(func() { var m map[string]int; m["x"] = 1; wg.Done() })
		wg.Wait()
	})
	if s.Failure == nil || s.Failure.Kind != simrt.FailPanic {
		t.Fatalf("expected panic failure, got %v", s.Failure)
	}
}
