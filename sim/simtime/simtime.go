// Package simtime mirrors the clock-reading and sleeping functions of package time on a
// discrete-event clock owned by the simulator (which only moves when nothing is runnable).
package simtime

import (
	"time"

	"verif.local/sim/simrt"
)

var epoch = time.Unix(1700000000, 0)

func Now() time.Time {
	if s := simrt.Current(); s != nil {
		s.Enter()
		return epoch.Add(time.Duration(s.Now()))
	}
	return time.Now()
}

func Since(t time.Time) time.Duration { return Now().Sub(t) }
func Until(t time.Time) time.Duration { return t.Sub(Now()) }

func Sleep(d time.Duration) {
	s := simrt.Current()
	if s == nil {
		time.Sleep(d)
		return
	}
	s.Yield("sleep", d.String())
	if d > 0 {
		s.SleepUntil(s.Now() + int64(d))
	}
}
