// Package simtime mirrors the clock-reading and sleeping functions of package time on a
// discrete-event clock owned by the simulator (which only moves when nothing is runnable).
package simtime

import (
	"time"

	"verif.local/sim/simchan"
	"verif.local/sim/simrt"
)

var epoch = time.Unix(1700000000, 0)

func Now() time.Time {
	if s := simrt.Current(); s != nil {
		s.Enter()
		return epoch.Add(time.Duration(s.Now()))
	}
	return time.Now()
}

func Since(t time.Time) time.Duration { return Now().Sub(t) }
func Until(t time.Time) time.Duration { return t.Sub(Now()) }

func Sleep(d time.Duration) {
	s := simrt.Current()
	if s == nil {
		time.Sleep(d)
		return
	}
	s.Yield("sleep", d.String())
	if d > 0 {
		s.SleepUntil(s.Now() + int64(d))
	}
}

// ---------------------------------------------------------------- timers

// Timer mirrors time.Timer. Under a simulation its channel is fed by a simulated goroutine
// that sleeps on the discrete-event clock.
type Timer struct {
	C    <-chan time.Time
	c    chan time.Time
	real *time.Timer
	f    func()
	gen  int
	live bool
}

func NewTimer(d time.Duration) *Timer {
	if simrt.Current() == nil {
		rt := time.NewTimer(d)
		return &Timer{C: rt.C, real: rt}
	}
	c := make(chan time.Time, 1)
	t := &Timer{C: c, c: c}
	t.arm(d)
	return t
}

func AfterFunc(d time.Duration, f func()) *Timer {
	if simrt.Current() == nil {
		return &Timer{real: time.AfterFunc(d, f)}
	}
	t := &Timer{f: f}
	t.arm(d)
	return t
}

func After(d time.Duration) <-chan time.Time { return NewTimer(d).C }

func (t *Timer) arm(d time.Duration) {
	s := simrt.Current()
	t.gen++
	gen := t.gen
	t.live = true
	at := s.Now() + int64(d)
	simrt.Go(func() {
		if d > 0 {
			s.SleepUntil(at)
		}
		if !t.live || t.gen != gen {
			return
		}
		t.live = false
		if t.f != nil {
			t.f()
			return
		}
		simchan.Select(true, simchan.S(t.c, epoch.Add(time.Duration(s.Now()))))
	})
}

func (t *Timer) Stop() bool {
	if t.real != nil {
		return t.real.Stop()
	}
	simrt.Current().Yield("timer-stop", "")
	was := t.live
	t.live = false
	return was
}

func (t *Timer) Reset(d time.Duration) bool {
	if t.real != nil {
		return t.real.Reset(d)
	}
	simrt.Current().Yield("timer-reset", "")
	was := t.live
	t.arm(d)
	return was
}

// Ticker mirrors time.Ticker. A simulated ticker stops by itself once the root goroutine of
// the simulated process has returned, so that a forgotten ticker does not keep a finished
// run alive.
type Ticker struct {
	C       <-chan time.Time
	real    *time.Ticker
	stopped bool
}

func NewTicker(d time.Duration) *Ticker {
	s := simrt.Current()
	if s == nil {
		rt := time.NewTicker(d)
		return &Ticker{C: rt.C, real: rt}
	}
	if d <= 0 {
		panic("non-positive interval for NewTicker")
	}
	c := make(chan time.Time, 1)
	t := &Ticker{C: c}
	next := s.Now() + int64(d)
	simrt.Go(func() {
		for !t.stopped && !s.RootDone() {
			s.SleepUntil(next)
			next += int64(d)
			if t.stopped {
				return
			}
			simchan.Select(true, simchan.S(c, epoch.Add(time.Duration(s.Now()))))
		}
	})
	return t
}

func Tick(d time.Duration) <-chan time.Time { return NewTicker(d).C }

func (t *Ticker) Stop() {
	if t.real != nil {
		t.real.Stop()
		return
	}
	simrt.Current().Yield("ticker-stop", "")
	t.stopped = true
}
